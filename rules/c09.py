"""C09 - preprocessor symbols are substituted as whole words, in definition order."""
import ast

from engine.index import AnalysisError
from engine.helpers import (resolver, facts_at, filter_facts_at, lit_cmp, describe_facts, unparse, walk_no_nested, returns, deref,
                            body_only_aborts, calls_to, attr_writers, reaching_def)
from engine.lin import clause_implies
from engine.types import CallGraph, bind_args
from engine import rx
from engine.selftest import V

PP = 'bespokeasm.assembler.preprocessor.Preprocessor'
PL = 'bespokeasm.assembler.line_object.factory.LineOjectFactory.parse_line'
ENGINE = 'bespokeasm.assembler.engine.Assembler.assemble_bytecode'

EXPLANATION = (
    'Static rules over Preprocessor, the line factory and the engine. Decided: C09.1 a name found by the word-bounded '
    'recogniser is replaced by a word-bounded operation on an escaped name with a literal replacement (str.replace on the '
    'line text is substring semantics and is refuted); C09.2 substitution dominates all four line factories on the '
    'non-directive branch, is absent from the directive branch, and #define registers at parse time in the same '
    'sequential loop; C09.3 all three definition sources go through create_symbol whose insertion is dominated by the '
    'duplicate check, duplicates are rejected, engine order is configuration, command line, file; C09.4 the '
    'self-reference exit dominates the recursive call and the recursion passes a strictly larger resolved set; C09.5 a '
    'name the recogniser can never produce cannot be registered. Not decided: equality of the fixpoint text for all '
    'symbol sets.'
)
ASSUMPTIONS = ['re.sub with \\b anchors on re.escape(name) is whole-word replacement for names made of word characters']


def _is_wordbound_escape(e: ast.expr, name: str) -> bool:
    """r'\\b' + re.escape(name) + r'\\b'  or the f-string equivalent."""
    parts = []

    def flat(x):
        if isinstance(x, ast.BinOp) and isinstance(x.op, ast.Add):
            flat(x.left)
            flat(x.right)
        elif isinstance(x, ast.JoinedStr):
            for v in x.values:
                parts.append(v.value if isinstance(v, ast.FormattedValue) else v)
        else:
            parts.append(x)
    flat(e)
    txt = []
    for p in parts:
        if isinstance(p, ast.Constant) and isinstance(p.value, str):
            txt.append(('s', p.value))
        elif isinstance(p, ast.Call) and unparse(p.func) == 're.escape' and len(p.args) == 1 and unparse(p.args[0]) == name:
            txt.append(('esc', name))
        else:
            txt.append(('?', unparse(p)))
    s = ''.join(v if k == 's' else '\x00' if k == 'esc' else '\x01' for k, v in txt)
    return s in ('\\b\x00\\b', '\\b(?:\x00)\\b', '(?<!\\w)\x00(?!\\w)')


def c09_1(ctx):
    ctx.rule('C09.1', 'whole-word recognition and whole-word replacement', 3)
    rs = ctx.repo.func(PP + '.resolve_symbols')
    line = rs.call_params[1].arg
    # recogniser
    finds = [c for c in ast.walk(rs.node) if isinstance(c, ast.Call) and unparse(c.func) in ('re.findall', 're.finditer')]
    if len(finds) != 1:
        raise AnalysisError('resolve_symbols: expected one findall/finditer recogniser')
    pat = ctx.fold.try_fold(finds[0].args[0], rs.module, rs.cls)
    sym = ctx.fold.module_const('bespokeasm.assembler.preprocessor.symbol', 'SYMBOL_PATTERN')
    ok = isinstance(pat, str) and pat == f'\\b({sym})\\b' and unparse(finds[0].args[1]) == line
    ctx.check(ok, 'recognise:word-bounded', rs.site(finds[0]), 'candidate names are found as whole words matching SYMBOL_PATTERN in the line',
              f'pattern {pat!r} over {unparse(finds[0].args[1])}')
    # loop variable over found names
    loops = [l for l in walk_no_nested(rs.node) if isinstance(l, ast.For) and isinstance(l.target, ast.Name)]
    loop = next((l for l in loops if any(isinstance(n, ast.Assign) and unparse(n.targets[0]) == line for n in ast.walk(l))), None)
    if loop is None:
        ctx.refute('replace:present', rs.site(), 'found symbols are replaced in the line', 'no assignment to the line text inside the symbol loop')
        return
    s = loop.target.id
    reps = [n for n in ast.walk(loop) if isinstance(n, ast.Assign) and unparse(n.targets[0]) == line]
    for n in reps:
        v = n.value
        if isinstance(v, ast.Call) and isinstance(v.func, ast.Attribute) and v.func.attr == 'replace' and unparse(v.func.value) == line:
            ctx.refute('replace:word-bounded', rs.site(n), 'a recognised name is replaced only where it stands as a whole word',
                       f'{unparse(v)} replaces every substring occurrence: with `#define FOO 9`, FOOBAR becomes 9BAR',
                       witness={'source': '#define FOO 9 / .byte FOO, FOOBAR'})
            continue
        if isinstance(v, ast.Call) and unparse(v.func) == 're.sub' and len(v.args) >= 3:
            pat_e, repl, subj = v.args[0], v.args[1], v.args[2]
            ok = _is_wordbound_escape(deref(ctx, rs, pat_e, n), s) and unparse(subj) == line
            ctx.check(ok, 'replace:word-bounded', rs.site(n), 'replacement pattern is \\b + re.escape(name) + \\b applied to the line',
                      f'pattern {unparse(pat_e)} on {unparse(subj)}')
            cnt = next((k.value for k in v.keywords if k.arg == 'count'), v.args[3] if len(v.args) > 3 else None)
            ctx.check(cnt is None or ctx.fold.try_fold(cnt, rs.module) == 0, 'replace:all-occurrences', rs.site(n),
                      'every whole-word occurrence is replaced', f'count={unparse(cnt) if cnt is not None else None}')
            lit_ok = isinstance(repl, ast.Lambda) or (isinstance(repl, ast.Call) and 'replace' in unparse(repl) and '\\\\' in unparse(repl))
            if isinstance(repl, ast.Lambda):
                lit_ok = isinstance(repl.body, ast.Name)
                rname = repl.body.id if lit_ok else None
            else:
                rname = None
            ctx.check(lit_ok, 'replace:literal-replacement', rs.site(n),
                      'the replacement text is inserted literally (callable replacement, not a regex template)',
                      f'replacement argument {unparse(repl)}: backslashes / group references in the text would be interpreted')
            # the replacement text is the recursively resolved value of that symbol
            if rname:
                d = reaching_def(ctx, rs, rname, n)
                ok = isinstance(d, ast.Call) and unparse(d.func) == 'self.resolve_symbols' and 'symbol.value' in [unparse(a) for a in d.args]
                sd = reaching_def(ctx, rs, 'symbol', n)
                ok = ok and sd is not None and unparse(sd) == f'self.get_symbol({s})'
                ctx.check(ok, 'replace:with-own-value', rs.site(n), 'a name is replaced by the (recursively resolved) value of that very symbol',
                          f'{rname} = {unparse(d) if d is not None else None}; symbol = {unparse(sd) if sd is not None else None}')
            continue
        ctx.err('replace:word-bounded', rs.site(n), 'replacement is re.sub or str.replace', f'unrecognised {unparse(v)}')
    # repeat until nothing is left: recursion on the rewritten line when something was replaced
    tail = [c for c in ast.walk(rs.node) if isinstance(c, ast.Call) and unparse(c.func) == 'self.resolve_symbols'
            and len(c.args) >= 2 and unparse(c.args[1]) == line]
    ctx.check(bool(tail), 'replace:until-fixpoint', rs.site(), 'substitution repeats on the rewritten line until no defined symbol remains',
              'no recursive call on the rewritten line')


def c09_2(ctx):
    ctx.rule('C09.2', 'substitution precedes every line factory on non-directive lines only', 5)
    pl = ctx.repo.func(PL)
    g = ctx.cfg(pl)
    res = resolver(ctx, pl, inline=False)
    rs_calls = [n for n, c in calls_to(ctx, pl, {PP + '.resolve_symbols'})]
    if len(rs_calls) != 1:
        ctx.refute('order:resolve-once', pl.site(), 'parse_line substitutes symbols exactly once per line', f'{len(rs_calls)} calls to resolve_symbols')
        return
    rc = rs_calls[0]
    cl = filter_facts_at(ctx, pl, rc, res)
    ok = any(len(c) == 1 and next(iter(c))[0] == 'call' and "startswith('#')" in next(iter(c))[1] and next(iter(c))[-1] is False for c in cl)
    ctx.check(ok and len(cl) == 1, 'order:not-on-directives', pl.site(rc), 'symbols are substituted on every non-directive line and on no directive line',
              describe_facts(cl))
    st = next(n for n in walk_no_nested(pl.node) if isinstance(n, ast.Assign) and n.value is rc)
    var = unparse(st.targets[0])
    ctx.check(unparse(rc.args[1]) == var, 'order:substitutes-instruction-text', pl.site(rc), 'the instruction text is replaced by its substituted form',
              unparse(st))
    rn = g.node_of(rc)
    for cname in ('LabelLine', 'DirectiveLine', 'EmbeddedString', 'InstructionLine'):
        sites = [c for c in ast.walk(pl.node) if isinstance(c, ast.Call) and unparse(c.func) == f'{cname}.factory']
        if not sites:
            raise AnalysisError(f'parse_line no longer calls {cname}.factory')
        for c in sites:
            arg1 = unparse(c.args[1]) if len(c.args) > 1 else None
            ctx.check(g.dominates(rn, g.node_of(c)) and arg1 == var, f'order:before-{cname}', pl.site(c),
                      f'{cname}.factory sees only substituted text', f'dominated by substitution: {g.dominates(rn, g.node_of(c))}; text argument {arg1}')
    # directives go to the preprocessor factory with the raw text
    pf = [c for c in ast.walk(pl.node) if isinstance(c, ast.Call) and unparse(c.func).endswith('PreprocessorLineFactory.parse_line')]
    for c in pf:
        cl = facts_at(ctx, pl, c, res)
        ok = any(len(cc) == 1 and next(iter(cc))[0] == 'call' and "startswith('#')" in next(iter(cc))[1] and next(iter(cc))[-1] is True for cc in cl)
        ctx.check(ok and not g.reaches(rn, g.node_of(c)), 'order:directive-raw', pl.site(c), 'directive lines are processed unsubstituted', describe_facts(cl))


def c09_3(ctx):
    ctx.rule('C09.3', 'one guarded registration point; duplicates rejected; config, CLI, file order', 7)
    cs = ctx.repo.func(PP + '.create_symbol')
    res = resolver(ctx, cs, inline=False)
    ins = [n for n in walk_no_nested(cs.node) if isinstance(n, ast.Assign) and isinstance(n.targets[0], ast.Subscript)
           and unparse(n.targets[0].value) == 'self._symbols']
    sd = [c for c in walk_no_nested(cs.node) if isinstance(c, ast.Call) and unparse(c.func) == 'self._symbols.setdefault']
    if not ins and not sd:
        raise AnalysisError('create_symbol no longer inserts into self._symbols')
    for n in ins:
        cl = facts_at(ctx, cs, n, res)
        ctx.check(clause_implies(cl, lit_cmp(ctx, cs, 'name not in self._symbols', res)) and unparse(n.targets[0].slice) == 'name',
                  'register:duplicate-check', cs.site(n), 'a symbol is stored under its name only if that name is not yet defined', describe_facts(cl))
    for c in sd:
        ctx.check(unparse(c.args[0]) == 'name', 'register:duplicate-check', cs.site(c),
                  'a symbol is stored under its name only if that name is not yet defined', f'{unparse(c)} (setdefault keeps an existing entry)')
    # the other branch aborts
    g = ctx.cfg(cs)
    raises = [n for n in walk_no_nested(cs.node) if isinstance(n, ast.Raise) or (isinstance(n, ast.Expr) and 'sys.exit' in unparse(n))]
    dup_abort = False
    for r in raises:
        cl = facts_at(ctx, cs, r, res)
        if clause_implies(cl, lit_cmp(ctx, cs, 'name in self._symbols', res)):
            dup_abort = True
    ctx.check(dup_abort, 'register:duplicate-rejected', cs.site(), 'defining a symbol twice is rejected', 'no abort under `name in self._symbols`')
    for fn, node in attr_writers(ctx, '_symbols'):
        ctx.check(fn.qualname == PP + '.__init__', f'register:who-rebinds:{ctx.short(fn)}', fn.site(node), 'the symbol table is created once in the constructor',
                  f'{ctx.short(fn)} rebinds _symbols')
    for fn in ctx.repo.all_functions():
        for n in ast.walk(fn.node):
            if isinstance(n, ast.Subscript) and isinstance(n.ctx, (ast.Store, ast.Del)) and unparse(n.value).endswith('._symbols'):
                ctx.check(fn.qualname == PP + '.create_symbol', f'register:who-inserts:{ctx.short(fn)}', fn.site(n),
                          'only create_symbol inserts into the symbol table', f'{ctx.short(fn)} writes {unparse(n)}')
    # sources
    init = ctx.repo.func(PP + '.__init__')
    cli = ctx.repo.func(PP + '.add_cli_symbols')
    dsl = ctx.repo.func('bespokeasm.assembler.line_object.preprocessor_line.define_symbol.DefineSymbolLine.__init__')
    for f, what in ((init, 'configuration'), (cli, 'command line'), (dsl, '#define')):
        sites = calls_to(ctx, f, {PP + '.create_symbol'})
        ctx.check(bool(sites), f'register:source:{what}', f.site(), f'{what} symbols are registered through create_symbol', 'no call')
    # every definition of a source reaches create_symbol on its own (that is where a second definition of a name is refused): the
    # loop that registers them runs over the definitions as given, not over a dict / set built from them (which merges duplicates)
    for f, what, src in ((init, 'configuration', init.call_params[0].arg if init.call_params else None), (cli, 'command line', cli.call_params[0].arg)):
        for node, callee in calls_to(ctx, f, {PP + '.create_symbol'}):
            g_ = ctx.cfg(f)
            loops_ = g_.loop_facts(g_.node_of(node))
            if not loops_:
                continue
            it = loops_[-1][0].iter
            while isinstance(it, ast.Call) and unparse(it.func) in ('enumerate', 'list', 'tuple', 'sorted', 'reversed') and it.args:
                it = it.args[0]
            d_ = deref(ctx, f, it, loops_[-1][0])
            while isinstance(d_, ast.Call) and isinstance(d_.func, ast.Attribute) and d_.func.attr in ('items', 'keys', 'values') and not d_.args:
                d_ = deref(ctx, f, d_.func.value, loops_[-1][0])
            merging = isinstance(d_, (ast.Dict, ast.DictComp, ast.Set, ast.SetComp)) or (isinstance(d_, ast.Call) and unparse(d_.func) in ('dict', 'set', 'frozenset', 'dict.fromkeys'))
            ctx.check(not merging, f'register:each-definition-registered:{what}', f.site(node),
                      f'every {what} definition is handed to create_symbol separately, so that a second definition of a name is refused there',
                      f'the definitions are first collected in {unparse(d_)[:100]}: two definitions of one name merge silently')
    # the replacement text reaches the symbol unchanged from each source
    okv = {'configuration': ("symbol_def.get('value', '')", "symbol_def['value']", "symbol_def.get('value')", "symbol_def.get('value', None)"),
           'command line': ('value.strip()', 'value', 'None'),
           '#define': ('define_match.group(2)', 'None')}
    for f, what in ((init, 'configuration'), (cli, 'command line'), (dsl, '#define')):
        for node, callee in calls_to(ctx, f, {PP + '.create_symbol'}):
            b = bind_args(node, callee)
            v = unparse(b.get('value')) if b.get('value') is not None else 'None'
            if what == 'configuration' and b.get('value') is not None:
                # the configured value may be converted to its text (`'' if v is None else str(v)`): what is converted must be the configured value itself
                d_ = deref(ctx, f, b.get('value'), node)
                if isinstance(d_, ast.IfExp) and isinstance(d_.body, ast.Constant) and d_.body.value == '':
                    d_ = d_.orelse
                if isinstance(d_, ast.Call) and unparse(d_.func) == 'str' and len(d_.args) == 1:
                    d_ = d_.args[0]
                v = unparse(deref(ctx, f, d_, node))
            ctx.check(v in okv[what], f'register:value-unchanged:{what}', f.site(node),
                      f'the {what} replacement text is handed to the symbol as given (an absent/empty value stays empty)',
                      f'value argument {v}')
    ps = ctx.repo.func('bespokeasm.assembler.preprocessor.symbol.PreprocessorSymbol.__init__')
    from engine.helpers import self_attr_stores
    stv = self_attr_stores(ps.node, '_value')
    ctx.check(len(stv) == 1 and unparse(stv[0][2]) in ("value if value is not None else ''", "'' if value is None else value", "value or ''"),
              'register:none-is-empty', ps.site(), 'a symbol without a value is replaced by the empty text', '; '.join(unparse(x[0]) for x in stv))
    pv = ctx.repo.func('bespokeasm.assembler.preprocessor.symbol.PreprocessorSymbol.value')
    rr = returns(pv)
    ctx.check(len(rr) == 1 and unparse(rr[0].value) == 'self._value', 'register:value-getter', pv.site(), 'symbol.value is the stored text', '; '.join(unparse(r) for r in rr))
    # ValueError -> exit where caught
    for f in (init, dsl):
        for t in ast.walk(f.node):
            if isinstance(t, ast.Try):
                for h in t.handlers:
                    if h.type is not None and 'ValueError' in unparse(h.type):
                        ctx.check(body_only_aborts(h.body), f'register:duplicate->exit:{ctx.short(f)}', f.site(h),
                                  'a duplicate definition ends the run', 'handler swallows the duplicate error')
    # engine order
    eng = ctx.repo.func(ENGINE)
    g = ctx.cfg(eng)
    a = [c for c in ast.walk(eng.node) if isinstance(c, ast.Call) and unparse(c.func) == 'Preprocessor']
    b = [n for n, c in calls_to(ctx, eng, {PP + '.add_cli_symbols'})]
    c_ = [n for n, c in calls_to(ctx, eng, {'bespokeasm.assembler.assembly_file.AssemblyFile.load_line_objects'})]
    ok = len(a) == 1 and len(b) == 1 and len(c_) == 1 and g.dominates(g.node_of(a[0]), g.node_of(b[0])) and g.dominates(g.node_of(b[0]), g.node_of(c_[0]))
    ctx.check(ok, 'register:order', eng.site(a[0]) if a else eng.site(), 'definition order is configuration, then command line, then source files',
              f'{len(a)} Preprocessor(), {len(b)} add_cli_symbols, {len(c_)} load_line_objects')
    if ok:
        ctx.check(unparse(a[0].args[0]) == 'self._model.predefined_symbols' and unparse(b[0].args[0]) == 'self._predefined_symbols'
                  and unparse(b[0].func.value) == unparse(next(n for n in ast.walk(eng.node) if isinstance(n, (ast.Assign, ast.AnnAssign)) and n.value is a[0]).targets[0]
                                                           if isinstance(next(n for n in ast.walk(eng.node) if isinstance(n, (ast.Assign, ast.AnnAssign)) and n.value is a[0]), ast.Assign)
                                                           else next(n for n in ast.walk(eng.node) if isinstance(n, ast.AnnAssign) and n.value is a[0]).target),
                  'register:sources-wired', eng.site(a[0]), 'the configuration symbols and the -D symbols feed the same preprocessor',
                  f'{unparse(a[0])}; {unparse(b[0])}')
    ei = ctx.repo.func('bespokeasm.assembler.engine.Assembler.__init__')
    st = [n for n in ast.walk(ei.node) if isinstance(n, ast.Assign) and unparse(n.targets[0]) == 'self._predefined_symbols']
    ctx.check(len(st) == 1 and unparse(st[0].value) == 'predefined', 'register:cli-stored', ei.site(), '-D symbols are kept as given', '; '.join(unparse(s) for s in st))


def c09_4(ctx):
    ctx.rule('C09.4', 'self reference is rejected and the recursion measure grows', 3)
    rs = ctx.repo.func(PP + '.resolve_symbols')
    res = resolver(ctx, rs, inline=False)
    param = rs.call_params[2].arg
    rec = [c for c in ast.walk(rs.node) if isinstance(c, ast.Call) and unparse(c.func) == 'self.resolve_symbols']
    if not rec:
        raise AnalysisError('resolve_symbols is no longer recursive')
    for c in rec:
        b = bind_args(c, rs)
        arg = b.get(param)
        inner = 'symbol.value' in [unparse(a) for a in c.args]
        key = 'cycle:value-recursion' if inner else 'cycle:line-recursion'
        grows = False
        detail = unparse(arg) if arg is not None else 'default argument (empty set)'
        if isinstance(arg, ast.Name) and arg.id != param:
            d = reaching_def(ctx, rs, arg.id, c)
            upd = [u for u in ast.walk(rs.node) if isinstance(u, ast.Call) and isinstance(u.func, ast.Attribute)
                   and unparse(u.func.value) == arg.id and u.func.attr in ('update', 'add')]
            grows = d is not None and unparse(d) == f'{param}.copy()' and bool(upd)
            detail = f'{arg.id} = {unparse(d) if d is not None else None}; grown by {[unparse(u) for u in upd]}'
        ctx.check(grows, key + ':strict-superset', rs.site(c), 'the recursive call receives a copy of the resolved set enlarged by the names being expanded',
                  detail)
        if inner:
            loop_var = next((l.target.id for l in walk_no_nested(rs.node) if isinstance(l, ast.For) and any(x is c for x in ast.walk(l))), None)
            cl = facts_at(ctx, rs, c, res)
            ok = loop_var is not None and clause_implies(cl, lit_cmp(ctx, rs, f'{loop_var} not in {param}', res))
            ctx.check(ok, 'cycle:self-reference-exit', rs.site(c), 'expanding a symbol that is already being expanded is rejected before recursing',
                      describe_facts(cl))


def c09_5(ctx):
    ctx.rule('C09.5', 'a name the recogniser can never produce cannot be registered', 2)
    cs = ctx.repo.func(PP + '.create_symbol')
    res = resolver(ctx, cs, inline=False)
    ins = [n for n in walk_no_nested(cs.node) if isinstance(n, ast.Assign) and isinstance(n.targets[0], ast.Subscript)
           and unparse(n.targets[0].value) == 'self._symbols']
    sym = ctx.fold.module_const('bespokeasm.assembler.preprocessor.symbol', 'SYMBOL_PATTERN')
    minw = rx.min_width(sym)
    for n in ins:
        cl = facts_at(ctx, cs, n, res)
        ok = False
        for c in cl:
            for l in c:
                if l[0] in ('isnone',) and 're.fullmatch(SYMBOL_PATTERN, name)' in l[1] and l[-1] is False and len(c) == 1:
                    ok = True
        ctx.check(ok, 'define:name-validated', cs.site(n),
                  'a symbol is registered only if its whole name matches the recogniser\'s pattern (else abort)',
                  f'facts at insertion: {describe_facts(cl)}; SYMBOL_PATTERN needs at least {minw} characters, so e.g. `-D X=5` is registered but never substituted')
    dpat = ctx.fold.class_const('bespokeasm.assembler.line_object.preprocessor_line.define_symbol.DefineSymbolLine', 'PATTERN_DEFINE_SYMBOL').pattern
    ctx.check(f'({sym})' in dpat, 'define:#define-uses-same-pattern', 'src/bespokeasm/assembler/line_object/preprocessor_line/define_symbol.py:14',
              '#define accepts exactly the names the recogniser can find', dpat)


def c09_predefined(ctx):
    """Symbols "defined by the ISA configuration" are the list under predefined.symbols."""
    from rules.shared import cfg_accessors
    cfg_accessors(ctx, only=('predefined_symbols',))
    # the replacement text of a configured symbol is the text of its value (a YAML number arrives as an int)
    ctx.rule('C09.7', 'a configured symbol is defined with the text of its configured value; an empty value stays empty', 1)
    pi = ctx.repo.func('bespokeasm.assembler.preprocessor.Preprocessor.__init__')
    cs = [c for c in ast.walk(pi.node) if isinstance(c, ast.Call) and unparse(c.func) == 'self.create_symbol']
    ok = len(cs) == 1 and len(cs[0].args) >= 2
    if ok:
        v = deref(ctx, pi, cs[0].args[1], cs[0])
        strs = [x for x in ast.walk(v) if isinstance(x, ast.Call) and unparse(x.func) == 'str' and len(x.args) == 1]
        # an empty value (YAML null) stays empty: str() is applied only on the branch where the value is not None
        none_kept = isinstance(v, ast.IfExp) and isinstance(v.test, ast.Compare) and len(v.test.ops) == 1 and isinstance(v.test.ops[0], (ast.Is, ast.IsNot)) \
            and isinstance(v.test.comparators[0], ast.Constant) and v.test.comparators[0].value is None \
            and not any(isinstance(x, ast.Call) and unparse(x.func) == 'str' for x in ast.walk(v.body if isinstance(v.test.ops[0], ast.Is) else v.orelse))
        ok = bool(strs) and none_kept and all("get('value'" in unparse(deref(ctx, pi, x.args[0], cs[0])) or "['value']" in unparse(deref(ctx, pi, x.args[0], cs[0])) for x in strs)
    ctx.check(ok, 'register:config-value-as-text', pi.site(cs[0]) if cs else pi.site(), 'a configured symbol is defined with the text of its configured value',
              unparse(cs[0])[:120] if cs else 'no create_symbol call')
    from rules.shared import exact_lookup
    ctx.rule('C09.6', 'a symbol is found under exactly the name it was defined with', 1)
    exact_lookup(ctx, 'bespokeasm.assembler.preprocessor.Preprocessor.get_symbol', '_symbols', 'a preprocessor symbol', 'lookup:symbol-by-exact-name')


def c09_state(ctx):
    """Per-statement / per-lookup properties presuppose that nothing is remembered between statements beyond the reviewed state."""
    from rules.shared import state_discipline
    state_discipline(ctx, ('bespokeasm.assembler.preprocessor', 'bespokeasm.assembler.line_object.preprocessor_line', 'bespokeasm.assembler.line_object.factory'))


def c09_text(ctx):
    """The replacement text of a #define is what was written: the only change made to a directive line before it is parsed is the
    normalisation of the blank(s) after the directive keyword (C18.2)."""
    from rules.c18 import c18_2
    c18_2(ctx)

RULES = [c09_predefined, c09_1, c09_2, c09_3, c09_4, c09_5, c09_state, c09_text]

_P = 'assembler/preprocessor/__init__.py'
_F = 'assembler/line_object/factory.py'
MUTANTS = [
    V('c09-numeric-looking-names-skipped', 'assembler/preprocessor/__init__.py', "        return self._symbols.get(name, None)", "        if name[:1].isdigit() or name.endswith('H'):\n            return None\n        return self._symbols.get(name, None)", 'C09.6'),
    V('c09-config-symbols-wrong-key', 'assembler/model/__init__.py', "            return self._config['predefined']['symbols']", "            return self._config['predefined']['constants']", 'CFG.1'),
    V('c09-str-replace', _P, '''                line_str = re.sub(
                    r'\\b' + re.escape(s) + r'\\b',
                    lambda m: replacement_str,
                    line_str,
                )''', '''                line_str = line_str.replace(s, replacement_str)''', 'C09.1'),
    V('c09-no-escape', _P, "r'\\b' + re.escape(s) + r'\\b',", "r'\\b' + s + r'\\b',", 'C09.1'),
    V('c09-leading-boundary-only', _P, "r'\\b' + re.escape(s) + r'\\b',", "r'\\b' + re.escape(s),", 'C09.1'),
    V('c09-template-repl', _P, "                    lambda m: replacement_str,\n", "                    replacement_str,\n", 'C09.1'),
    V('c09-count-1', _P, "                    line_str,\n                )", "                    line_str,\n                    count=1,\n                )", 'C09.1'),
    V('c09-resolve-after-label', _F, '''            # resolve preprocessor symbols
            instruction_str = preprocessor.resolve_symbols(line_id, instruction_str)
            # parse instruction
            while len(instruction_str) > 0:
                # try label
                line_obj: LineObject = LabelLine.factory(''', '''            # parse instruction
            while len(instruction_str) > 0:
                instruction_str = preprocessor.resolve_symbols(line_id, instruction_str)
                # try label
                line_obj: LineObject = LabelLine.factory(''', 'C09.2'),
    V('c09-cli-bypass', _P, '''                name, value = symbol_str.split('=')
                self.create_symbol(name.strip(), value.strip())''', '''                name, value = symbol_str.split('=')
                self._symbols[name.strip()] = PreprocessorSymbol(name.strip(), value.strip(), None)''', 'C09.3'),
    V('c09-same-set', _P, 'replacement_str = self.resolve_symbols(line_id, symbol.value, local_resolved_symbols)', 'replacement_str = self.resolve_symbols(line_id, symbol.value, resolved_symbols)', 'C09.4'),
    V('c09-no-cycle-exit', _P, '                if s in resolved_symbols:\n', '                if False:\n', 'C09.4'),
    V('c09-dup-overwrite', _P, '        if name not in self._symbols:\n', '        if True:\n', 'C09.3'),
    V('c09-no-name-validation', _P, '''        if re.fullmatch(SYMBOL_PATTERN, name) is None:
            # a name the substitution pass can never recognize would be silently ignored
            sys.exit(f'ERROR - {line_id}: "{name}" is not a valid preprocessor symbol name')
''', '', 'C09.5'),
    V('c09-cli-before-config', 'assembler/engine.py', '''        preprocessor: Preprocessor = Preprocessor(self._model.predefined_symbols)
        # add any predefined macros from the command line
        preprocessor.add_cli_symbols(self._predefined_symbols)
''', '''        preprocessor: Preprocessor = Preprocessor(self._model.predefined_symbols)
''', 'C09.3'),
    V('c09-directives-substituted', _F, '''        if instruction_str.startswith('#'):
            # this is a preprocessor directive''', '''        instruction_str = preprocessor.resolve_symbols(line_id, instruction_str)
        if instruction_str.startswith('#'):
            # this is a preprocessor directive''', 'C09.2'),
    V('c09-wrong-symbol-value', _P, '            symbol = self.get_symbol(s)\n', '            symbol = self.get_symbol(s) or self.get_symbol(s.upper())\n', 'C09.1'),
    V('c09-dup-swallowed', 'assembler/line_object/preprocessor_line/define_symbol.py', '''            except ValueError:
                sys.exit(f'ERROR - {line_id}: Preprocessor symbol {define_match.group(1)} is defined multiple times.')''', '''            except ValueError:
                self._symbol = preprocessor.get_symbol(define_match.group(1))''', 'C09.3'),
    V('c09-no-fixpoint', _P, '            return self.resolve_symbols(line_id, line_str, updated_resolved_symbols)', '            return line_str', 'C09.1'),
]
MUTANTS += [
    V('c09-dup-equal-accepted', _P, '''        if name not in self._symbols:
            symbol = PreprocessorSymbol(name, value, line_id)
            self._symbols[name] = symbol
            return symbol
        else:
            raise ValueError(f'Symbol {name} already exists')''', '''        symbol = PreprocessorSymbol(name, value, line_id)
        if self._symbols.setdefault(name, symbol) != symbol:
            raise ValueError(f'Symbol {name} already exists')
        return symbol''', 'C09.3'),
    V('c09-config-value-str', _P, "self.create_symbol(symbol_def['name'], '' if value is None else str(value))", "self.create_symbol(symbol_def['name'], str(value))", 'C09.7'),
]
TWINS = [
    V('c09-t-fstring-pattern', _P, "r'\\b' + re.escape(s) + r'\\b',", "rf'\\b{re.escape(s)}\\b',"),
    V('c09-t-dup-flip', _P, '''        if name not in self._symbols:
            symbol = PreprocessorSymbol(name, value, line_id)
            self._symbols[name] = symbol
            return symbol
        else:
            raise ValueError(f'Symbol {name} already exists')''', '''        if name in self._symbols:
            raise ValueError(f'Symbol {name} already exists')
        symbol = PreprocessorSymbol(name, value, line_id)
        self._symbols[name] = symbol
        return symbol'''),
]
