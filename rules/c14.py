"""C14 - assembly always terminates and fails closed."""
import ast
import re._constants as sre

from engine.index import AnalysisError
from engine.helpers import (resolver, facts_at, filter_facts_at, lit_cmp, describe_facts, unparse, walk_no_nested, returns,
                            deref, body_only_aborts, calls_to, reaching_def, self_attr_stores, is_abort_stmt, const_str)
from engine.lin import clause_implies, to_lin
from engine.fold import Regex, NotConst
from engine.cfg import is_sys_exit_call
from engine.types import CallGraph, bind_args
from engine import rx
from engine.selftest import V
from rules.c02 import second_pass_loop, ENGINE

PL = 'bespokeasm.assembler.line_object.factory.LineOjectFactory.parse_line'

EXPLANATION = (
    'Static rules. Decided: C14.1 termination measures: every while loop has a recognised measure (token consumed on every '
    'iteration, text shrunk before every continue else exit, counter increment >= 1), no for loop grows the list it iterates, '
    'and no regular expression constant has an unbounded repetition whose body is itself an unbounded repetition of a '
    'character class (the (C+)+ shape with exponential backtracking); C14.2 fail closed: in assemble_bytecode nothing that may '
    'abort is reachable after the output file is opened, and the image is opened only after byte generation and pretty print '
    'rendering; every sys.exit on an error path reports failure (a message or a non-zero status); C14.3 the four named error '
    'classes end in exits (unresolved label, unknown instruction / unparsable remainder, no variant accepts, value does not '
    'fit - C12.3/C12.4 re-evaluated); C14.4 every line factory removes from the remaining text exactly what its pattern '
    'matched; C14.5 inventory of except handlers: each maps to an exit or to "no match", none swallows SystemExit/Exception. '
    'Not decided: run time of the (polynomial) remaining regular expressions; OS failures.'
)
ASSUMPTIONS = [
    'recursion terminates by the interpreter\'s recursion limit (RecursionError = rejection); call-graph SCCs are listed in the evidence only',
    'external calls (print, open, write, click.echo) are assumed not to abort',
    'the nested-repetition detector is syntactic on re._parser ASTs of constant-folded patterns',
]


# ---------------------------------------------------------------------------------------------- C14.1

def _loop_measure(ctx, fn, w: ast.While):
    g = ctx.cfg(fn)
    head = g.node_of(w)
    be = next(s for s in g.succ[head] if g.nodes[s].kind == 'branch' and g.nodes[s].polarity)
    test = unparse(w.test)
    # (a) token consumption: tokens.pop(0) on every iteration
    pops = [c for c in ast.walk(w) if isinstance(c, ast.Call) and isinstance(c.func, ast.Attribute) and c.func.attr == 'pop'
            and unparse(c.func.value) in test]
    if pops and g.all_paths_through(be, head, {g.node_of(p) for p in pops}):
        return 'consumes one element of the tested list on every iteration'
    # (b) text shrinking: every path back to the head passes an assignment  s = s.replace(<matched text>, '', 1)...  of the tested text
    m = None
    if isinstance(w.test, ast.Compare) and isinstance(w.test.left, ast.Call) and unparse(w.test.left.func) == 'len':
        m = unparse(w.test.left.args[0])
    else:
        from engine.lin import to_cnf as _to_cnf
        cl_ = _to_cnf(w.test, True, resolver(ctx, fn, inline=False))
        if len(cl_) == 1 and len(cl_[0]) == 1 and next(iter(cl_[0]))[0] == 'truthy' and next(iter(cl_[0]))[2] is True:
            m = next(iter(cl_[0]))[1]        # `while text:` - the same emptiness test
    if m is not None:
        shr = [n for n in walk_no_nested(w) if isinstance(n, ast.Assign) and unparse(n.targets[0]) == m and f'{m}.replace(' in unparse(n.value)
               and ", '', 1)" in unparse(n.value)]
        if shr and g.all_paths_through(be, head, {g.node_of(n) for n in shr}):
            # the removed text is the non-empty text a factory matched: each such assignment is dominated by `line_obj is not None`
            return 'removes the text of the line object just matched before every continue; otherwise exits'
    # (c) counter
    if isinstance(w.test, ast.Compare) and len(w.test.ops) == 1 and isinstance(w.test.ops[0], (ast.Lt, ast.LtE)) and isinstance(w.test.left, ast.Name):
        v = w.test.left.id
        incs = [n for n in walk_no_nested(w) if isinstance(n, ast.AugAssign) and unparse(n.target) == v and isinstance(n.op, ast.Add)]
        res = resolver(ctx, fn, inline=False)
        if incs and g.all_paths_through(be, head, {g.node_of(n) for n in incs}):
            ok = all(isinstance(n.value, ast.Constant) and isinstance(n.value.value, int) and n.value.value >= 1 for n in incs)
            if ok:
                return 'counter incremented by a positive constant on every iteration'
            return None
    # (d) descending counter: `while v > / >= bound:` with `v -= <positive constant>` on every way round, nothing else storing v
    if isinstance(w.test, ast.Compare) and len(w.test.ops) == 1 and isinstance(w.test.ops[0], (ast.Gt, ast.GtE)) and isinstance(w.test.left, ast.Name) \
            and isinstance(w.test.comparators[0], ast.Constant):
        v = w.test.left.id
        decs = [n for n in walk_no_nested(w) if isinstance(n, ast.AugAssign) and unparse(n.target) == v and isinstance(n.op, ast.Sub)]
        other = [n for n in ast.walk(w) if isinstance(n, ast.Name) and n.id == v and isinstance(n.ctx, ast.Store) and not any(n is d.target for d in decs)]
        if decs and not other and g.all_paths_through(be, head, {g.node_of(n) for n in decs}) \
                and all(isinstance(n.value, ast.Constant) and isinstance(n.value.value, int) and n.value.value >= 1 for n in decs):
            return 'counter decremented by a positive constant on every iteration, compared with a constant lower bound'
    return None


def _nested_unbounded(seq, path=''):
    """Find MAX_REPEAT(.., inf) whose body has an alternative that is (an optional prefix plus) an unbounded repeat of a class."""
    hits = []

    def alts_of(body):
        body = list(body)
        if len(body) == 1 and body[0][0] == sre.SUBPATTERN:
            return alts_of(body[0][1][3])
        if len(body) == 1 and body[0][0] == sre.BRANCH:
            out = []
            for a in body[0][1][1]:
                out.extend(alts_of(a))
            return out
        return [body]

    def is_class_repeat(item):
        op, av = item
        if op in (sre.MAX_REPEAT, sre.MIN_REPEAT) and av[1] == sre.MAXREPEAT:
            sub = list(av[2])
            return len(sub) == 1 and sub[0][0] in (sre.IN, sre.LITERAL, sre.ANY, sre.CATEGORY, sre.NOT_LITERAL)
        return False

    def optional(item):
        op, av = item
        return (op in (sre.MAX_REPEAT, sre.MIN_REPEAT) and av[0] == 0) or op in (sre.AT, sre.ASSERT, sre.ASSERT_NOT)

    def walk(seq):
        for op, av in seq:
            if op in (sre.MAX_REPEAT, sre.MIN_REPEAT):
                lo, hi, body = av
                if hi == sre.MAXREPEAT:
                    for alt in alts_of(body):
                        core = [it for it in alt if not optional(it) or is_class_repeat(it)]
                        reps = [it for it in core if is_class_repeat(it)]
                        rest = [it for it in core if not is_class_repeat(it)]
                        if reps and not rest:
                            hits.append(alt)
                walk(body)
            elif op == sre.SUBPATTERN:
                walk(av[3])
            elif op == sre.BRANCH:
                for a in av[1]:
                    walk(a)
            elif op in (sre.ASSERT, sre.ASSERT_NOT):
                walk(av[1])
    walk(seq)
    return hits


def c14_1(ctx):
    ctx.rule('C14.1', 'termination: loop measures, no self-growing iteration, no (C+)+ regular expressions', 6)
    n_while = 0
    for fn in ctx.repo.all_functions():
        for w in walk_no_nested(fn.node):
            if isinstance(w, ast.While):
                n_while += 1
                m = _loop_measure(ctx, fn, w)
                key = f'loop:{ctx.short(fn)}:{unparse(w.test)[:50]}'
                if m is not None:
                    ctx.ok(key, fn.site(w), 'the loop has a recognised termination measure', m)
                else:
                    # a recognisable non-advancing counter is refuted, anything else is unknown
                    incs = [n for n in walk_no_nested(w) if isinstance(n, ast.AugAssign) and isinstance(n.op, ast.Add)]
                    if incs and any('len(' in unparse(n.value) for n in incs):
                        ctx.refute(key, fn.site(w), 'the loop counter advances by at least 1 on every iteration',
                                   f'{unparse(incs[0])}: the increment is a length that can be 0 (a zero-length line stalls the loop)')
                    else:
                        ctx.err(key, fn.site(w), 'while loop matches one of the enumerated measures', 'unrecognised loop form')
            if isinstance(w, ast.For):
                it = unparse(w.iter)
                for c in ast.walk(w):
                    if isinstance(c, ast.Call) and isinstance(c.func, ast.Attribute) and c.func.attr in ('append', 'extend', 'insert') \
                            and unparse(c.func.value) == it:
                        ctx.refute(f'loop:{ctx.short(fn)}:grows:{it}', fn.site(c), 'a for loop does not grow the list it iterates', unparse(c))
    ctx.note(f'{n_while} while loops inspected')
    # parse_line: the text removed is the non-empty instruction text of a matched line object, and the loop's last statement aborts
    pl = ctx.repo.func(PL)
    for w in [w for w in walk_no_nested(pl.node) if isinstance(w, ast.While)]:
        ctx.check(is_abort_stmt(w.body[-1]), 'loop:parse_line:falls-to-exit', pl.site(w), 'an iteration that matched nothing ends in an exit',
                  unparse(w.body[-1])[:80])
    # regular expressions
    n_rx = 0
    seen_roots = {}
    for m in ctx.repo.modules.values():
        for name in m.assigns:
            try:
                v = ctx.fold.module_const(m.name, name)
            except NotConst:
                continue
            pat = v.pattern if isinstance(v, Regex) else (v if isinstance(v, str) and ('PATTERN' in name) else None)
            if pat is None:
                continue
            # a module constant is known by its name (it stays the same constant when it moves to another module); the module is
            # added only when two modules define the name with different texts
            qual = f'{m.name.split("bespokeasm.")[-1]}.{name}'
            others = [k for k, vv in seen_roots.items() if k == name or k.endswith('.' + name)]
            if not others:
                seen_roots[name] = (pat, v.flags if isinstance(v, Regex) else 0, f'{m.relpath}:1')
            elif all(seen_roots[k][0] == pat for k in others):
                pass
            else:
                seen_roots[qual] = (pat, v.flags if isinstance(v, Regex) else 0, f'{m.relpath}:1')
    for c in ctx.repo.classes.values():
        for name in c.attrs:
            try:
                v = ctx.fold.class_const(c, name)
            except (NotConst, AnalysisError):
                continue
            if isinstance(v, Regex) or (isinstance(v, str) and 'PATTERN' in name):
                seen_roots[f'{c.name}.{name}'] = (v.pattern if isinstance(v, Regex) else v, v.flags if isinstance(v, Regex) else 0, f'{c.module.relpath}:{c.node.lineno}')
    # patterns built inside functions from constants (match_pattern properties)
    for fn in ctx.repo.all_functions():
        for n in walk_no_nested(fn.node):
            if isinstance(n, ast.Assign) and isinstance(n.value, ast.JoinedStr) and isinstance(n.targets[0], ast.Name):
                v = ctx.fold.try_fold(n.value, fn.module, fn.cls)
                if isinstance(v, str) and ('+' in v or '*' in v):
                    seen_roots[f'{ctx.short(fn)}:{n.targets[0].id}'] = (v, 0, fn.site(n))
    # report each nested shape once, at the smallest pattern that contains it
    reported = {}
    for key, (pat, flags, site) in sorted(seen_roots.items(), key=lambda kv: len(kv[1][0])):
        try:
            p = rx.parse(pat, flags)
        except Exception:
            continue
        n_rx += 1
        hits = _nested_unbounded(p)
        if not hits:
            continue
        if any(rp in pat for rp in reported):
            continue   # contains an already reported smaller pattern
        reported[pat] = key
        ctx.refute(f'regex:nested-unbounded:{key}', site,
                   'no unbounded repetition has a body that can itself be an unbounded repetition of one character class',
                   f'{key}: `( ...|C+|... )+` - a long run of such characters can be split in exponentially many ways when the enclosing '
                   'pattern has to fail (e.g. `.fill 1111111111111111111111` without a comma does not return)',
                   witness={'input': '.fill ' + '1' * 30})
    ctx.ok('regex:scanned', '-', 'constant-folded regular expressions were scanned', f'{n_rx} patterns')


# ---------------------------------------------------------------------------------------------- C14.2

def _may_abort(ctx):
    """Functions from which sys.exit / an uncaught raise may be reached."""
    cache = getattr(ctx, '_may_abort', None)
    if cache is not None:
        return cache
    direct = set()
    for fn in ctx.repo.all_functions():
        for n in ast.walk(fn.node):
            if isinstance(n, ast.Raise) or is_sys_exit_call(n):
                direct.add(CallGraph.key(fn))
                break
    may = set(direct)
    changed = True
    while changed:
        changed = False
        for fn in ctx.repo.all_functions():
            k = CallGraph.key(fn)
            if k in may:
                continue
            if any(CallGraph.key(e.callee) in may for e in ctx.cg.callees(fn)):
                may.add(k)
                changed = True
    ctx._may_abort = may
    return may


def c14_2(ctx):
    ctx.rule('C14.2', 'fail closed: nothing may abort after the image is opened; error exits report failure', 4)
    fn = ctx.repo.func(ENGINE)
    g = ctx.cfg(fn)
    opens = [w for w in walk_no_nested(fn.node) if isinstance(w, ast.With) and any(
        isinstance(i.context_expr, ast.Call) and unparse(i.context_expr.func) == 'open' and '_output_file' in unparse(i.context_expr.args[0]) for i in w.items)]
    if len(opens) != 1:
        raise AnalysisError('assemble_bytecode: expected exactly one `with open(self._output_file ...)`')
    on = g.node_of(opens[0])
    after = g.reachable_from(on)
    may = _may_abort(ctx)
    bad = []
    for e in ctx.cg.callees(fn):
        if not g.has_node(e.node):
            continue
        nid = g.node_of(e.node)
        if nid in after and nid != on and CallGraph.key(e.callee) in may:
            bad.append(e)
    for e in bad[:3]:
        p = ctx.cg.path(e.callee, {k for k in may if k in {CallGraph.key(f) for f in ctx.repo.all_functions() if any(is_sys_exit_call(n) or isinstance(n, ast.Raise) for n in ast.walk(f.node))}})
        ctx.refute(f'closed:may-abort-after-image:{ctx.short(e.callee)}', fn.site(e.node), 'no call that may abort is reachable once the image has been opened',
                   f'{ctx.short(e.callee)} can reach sys.exit/raise after the image was written (failure is reported while a new image exists)')
    if not bad:
        ctx.ok('closed:may-abort-after-image', fn.site(opens[0]), 'no call that may abort is reachable once the image has been opened',
               f'{len([1 for e in ctx.cg.callees(fn) if g.has_node(e.node) and g.node_of(e.node) in after])} internal call/property edges after the open, none may abort')
    exits_after = [n for n in after if g.nodes[n].kind == 'stmt' and is_abort_stmt(g.nodes[n].stmt)]
    ctx.check(not exits_after, 'closed:no-exit-after-image', fn.site(opens[0]), 'no sys.exit / raise statement follows the image write',
              '; '.join(unparse(g.nodes[n].stmt)[:60] for n in exits_after))
    l2 = second_pass_loop(ctx, fn)
    ex2 = next(s for s in g.succ[g.node_of(l2)] if g.nodes[s].kind == 'branch' and not g.nodes[s].polarity)
    ctx.check(g.dominates(ex2, on), 'closed:image-after-generation', fn.site(opens[0]), 'the image is opened only after every line generated its bytes (and overlaps were checked)',
              'the open is not dominated by the end of the second pass')
    res_ = resolver(ctx, fn, inline=False)
    fcl = filter_facts_at(ctx, fn, opens[0], res_)
    lits = [l for c in fcl for l in c]
    ctx.check(all(len(c) == 1 for c in fcl) and lits == [('truthy', 'self._generate_binary', True)], 'closed:success-implies-image', fn.site(opens[0]),
              'when assembly gets this far the image is written whenever a binary was requested (also for a program that emits no bytes)',
              f'the image is written only when {describe_facts(fcl)}: success can be reported with no image, or with a stale one left in place')
    # every other file the run writes (the listing) is written before the image is opened: failing to write it leaves no image
    other = [w for w in walk_no_nested(fn.node) if isinstance(w, ast.With) and w is not opens[0] and any(
        isinstance(i.context_expr, ast.Call) and unparse(i.context_expr.func) == 'open' and len(i.context_expr.args) > 1 and 'w' in unparse(i.context_expr.args[1]) for i in w.items)]
    def _infeasible(w):
        # facts that contain a literal and its negation: the statement sits on a path that cannot be taken
        units = [next(iter(c)) for c in facts_at(ctx, fn, w, res_) if len(c) == 1]
        return any(u[:-1] == v[:-1] and u[-1] is not v[-1] and isinstance(u[-1], bool) for u in units for v in units)
    res_ = resolver(ctx, fn, inline=False)
    late = [w for w in other if g.reaches(on, g.node_of(w)) and not _infeasible(w)]
    other = [w for w in other if not _infeasible(w)]
    ctx.check(bool(other) and not late, 'closed:other-files-before-image', fn.site(late[0]) if late else fn.site(opens[0]),
              'a listing file is written before the image is opened', f'{len(late)} file(s) opened for writing after the image was written')
    pp = [n for n, c in calls_to(ctx, fn, {'bespokeasm.assembler.pretty_printer.PrettyPrinterBase.pretty_print'})]
    ok = bool(pp) and all(not g.reaches(on, g.node_of(c)) for c in pp)
    ctx.check(ok, 'closed:pretty-print-before-image', fn.site(pp[0]) if pp else fn.site(), 'pretty printing (which can abort) is rendered before the image is opened', '')
    # every sys.exit reports failure
    n = 0
    for f in ctx.repo.all_functions():
        for c in ast.walk(f.node):
            if is_sys_exit_call(c):
                n += 1
                a = c.args[0] if c.args else None
                good = isinstance(a, (ast.JoinedStr,)) or (isinstance(a, ast.Constant) and (isinstance(a.value, str) or (isinstance(a.value, int) and a.value != 0))) \
                    or (isinstance(a, ast.BinOp)) or (isinstance(a, ast.Call) and isinstance(a.func, ast.Attribute) and a.func.attr == 'format') \
                    or (isinstance(a, ast.Call) and unparse(a.func) == 'str')
                if not good:
                    ctx.refute(f'closed:exit-status:{ctx.short(f)}', f.site(c), 'an error exit carries a message or a non-zero status',
                               f'{unparse(c)} exits with status 0 when its argument is None (e.g. the result of click.echo)')
    ctx.ok('closed:exit-status', '-', 'every sys.exit carries a message / non-zero status', f'{n} sys.exit calls')
    # the CLI entry does not catch failures
    comp = ctx.repo.func('bespokeasm.__main__.compile')
    tries = [t for t in ast.walk(comp.node) if isinstance(t, ast.Try)]
    for t in tries:
        for h in t.handlers:
            ok = body_only_aborts(h.body) and not any(is_sys_exit_call(c) and c.args and isinstance(c.args[0], ast.Call) and not unparse(c.args[0].func) == 'str' for c in ast.walk(h))
            ctx.check(ok, 'closed:cli-handler', comp.site(h), 'a failure caught at the command line still ends with a failure status', unparse(h)[:120])


# ---------------------------------------------------------------------------------------------- C14.3

def c14_3(ctx):
    ctx.rule('C14.3', 'named error classes end in exits', 5)
    nv = ctx.repo.func('bespokeasm.expression.ExpressionNode._numeric_value')
    res = resolver(ctx, nv, inline=False)
    ok = False
    for r in returns(nv):
        if isinstance(r.value, ast.Name):
            d = reaching_def(ctx, nv, r.value.id, r)
            if d is not None and 'get_label_value' in unparse(d):
                ok = clause_implies(facts_at(ctx, nv, r, res), ('isnone', r.value.id, False))
    ctx.check(ok, 'error:unresolved-label', nv.site(), 'an unresolvable label is an exit', 'value returned without a None check')
    pl = ctx.repo.func(PL)
    g = ctx.cfg(pl)
    for w in [w for w in walk_no_nested(pl.node) if isinstance(w, ast.While)]:
        head = g.node_of(w)
        be = next(s for s in g.succ[head] if g.nodes[s].kind == 'branch' and g.nodes[s].polarity)
        apps = {g.node_of(c) for c in ast.walk(w) if isinstance(c, ast.Call) and unparse(c.func) == 'line_obj_list.append'}
        ctx.check(bool(apps) and g.all_paths_through(be, head, apps), 'error:unknown-instruction', pl.site(w),
                  'every iteration either records a parsed line object or exits (unknown instruction)', 'an iteration can continue without having matched anything')
    # a line whose text the statement pattern cannot read at all is an error (it is not "empty")
    im_ = [n for n in walk_no_nested(pl.node) if isinstance(n, ast.Assign) and unparse(n.targets[0]) == 'instruction_match']
    wl_ = [w for w in walk_no_nested(pl.node) if isinstance(w, ast.While)]
    ok = len(im_) == 1 and bool(wl_)
    if ok:
        r0_ = resolver(ctx, pl, inline=False)
        ok = all(clause_implies(facts_at(ctx, pl, w, r0_), ('isnone', 'instruction_match', False)) for w in wl_)
    ctx.check(ok, 'error:unreadable-line', pl.site(im_[0]) if im_ else pl.site(), 'a line the statement pattern does not match at all is rejected (exit), not treated as empty',
              'the statement loop is reached with `instruction_match is None`: a line containing e.g. a vertical tab silently disappears')
    # the bare line object (comment-only line) is built only when no statement text is left: otherwise -> exit
    r_pl = resolver(ctx, pl, inline=False)
    bare = [c for c in ast.walk(pl.node) if isinstance(c, ast.Call) and unparse(c.func) == 'LineObject']
    ok = len(bare) >= 1
    why = 'no bare LineObject construction found'
    for c in bare:
        cl = facts_at(ctx, pl, c, r_pl)
        want = lit_cmp(ctx, pl, "instruction_str == ''", r_pl)
        good = clause_implies(cl, want)
        ok = ok and good
        if not good:
            why = describe_facts(cl)
    ctx.check(ok, 'error:unparsed-directive-text', pl.site(bare[0]) if bare else pl.site(), 'a line that produced no statement although it has text left is rejected (only an empty rest becomes a comment-only line)', why)
    for q in ('bespokeasm.assembler.bytecode.generator.instruction.InstructionBytecodeGenerator.generate_bytecode_parts',
              'bespokeasm.assembler.bytecode.generator.macro.MacroBytecodeGenerator.generate_bytecode_parts'):
        f = ctx.repo.func(q)
        gg = ctx.cfg(f)
        loops = [l for l in walk_no_nested(f.node) if isinstance(l, ast.For)]
        ok = len(loops) == 1
        if ok:
            ex = next(s for s in gg.succ[gg.node_of(loops[0])] if gg.nodes[s].kind == 'branch' and not gg.nodes[s].polarity)
            ok = gg.exit not in gg.reachable_from(ex)
            rr = [r for r in ast.walk(loops[0]) if isinstance(r, ast.Return)]
            r0 = resolver(ctx, f, inline=False)
            ok = ok and all(isinstance(r.value, ast.Name) and clause_implies(facts_at(ctx, f, r, r0), ('isnone', r.value.id, False)) for r in rr)
        ctx.check(ok, f'error:no-variant:{f.cls.name}', f.site(), 'a statement no variant accepts is an exit; only a matched variant is returned', '')
    ip = ctx.repo.func('bespokeasm.assembler.model.instruction_parser.InstructioParser.parse_instruction')
    r0 = resolver(ctx, ip, inline=False)
    calls_ = [c for c in ast.walk(ip.node) if isinstance(c, ast.Call) and unparse(c.func) == 'BytecodeGenerator.generate_bytecode_parts']
    ok = len(calls_) == 1 and clause_implies(facts_at(ctx, ip, calls_[0], r0), ('isnone', 'instr_obj', False))
    ctx.check(ok, 'error:unknown-mnemonic', ip.site(), 'an unknown mnemonic is an exit', '')
    il = ctx.repo.func('bespokeasm.assembler.line_object.instruction_line.InstructionLine.factory')
    r1 = resolver(ctx, il, inline=False)
    ctor = [c for c in ast.walk(il.node) if isinstance(c, ast.Call) and unparse(c.func) == 'InstructionLine']
    ok = len(ctor) == 1 and any(len(c) == 1 and next(iter(c))[0] == 'in' and next(iter(c))[1] == 'command_str' and next(iter(c))[-1] is True
                                for c in facts_at(ctx, il, ctor[0], r1))
    ctx.check(ok, 'error:unrecognised-command', il.site(), 'an instruction line is built only for a known mnemonic', '')
    # labels are resolved and field widths checked while bytes are generated: that must happen for every byte-producing line
    from rules.c02 import c02_3, c02_5
    c02_3(ctx)
    c02_5(ctx)
    # an operand the expression lexer cannot tokenise completely must not be accepted with the odd characters dropped
    from rules.c07 import c07_4
    c07_4(ctx)
    # ... nor may an operand form accept a valid prefix and drop the rest of the operand
    from rules.c13 import c13_8
    c13_8(ctx)
    from rules.c12 import c12_1, c12_3, c12_4
    c12_1(ctx)
    c12_3(ctx)
    c12_4(ctx)


# ---------------------------------------------------------------------------------------------- C14.4

_FACTORY_TEXT = [
    # (function, constructed class, parameter receiving the instruction text)
    ('bespokeasm.assembler.line_object.directive_line.factory.DirectiveLine.factory', 'AddressOrgLine'),
    ('bespokeasm.assembler.line_object.directive_line.factory.DirectiveLine.factory', 'SetMemoryZoneLine'),
    ('bespokeasm.assembler.line_object.directive_line.factory.DirectiveLine.factory', 'FillDataLine'),
    ('bespokeasm.assembler.line_object.directive_line.factory.DirectiveLine.factory', 'FillUntilDataLine'),
    ('bespokeasm.assembler.line_object.directive_line.factory.DirectiveLine.factory', 'PageAlignLine'),
    ('bespokeasm.assembler.line_object.data_line.DataLine.factory', 'DataLine'),
    ('bespokeasm.assembler.line_object.label_line.LabelLine.factory', 'LabelLine'),
    ('bespokeasm.assembler.line_object.emdedded_string.EmbeddedString.factory', 'EmbeddedString'),
    ('bespokeasm.assembler.line_object.instruction_line.InstructionLine.factory', 'InstructionLine'),
]


def c14_4(ctx):
    ctx.rule('C14.4', 'every line factory consumes exactly the text its pattern matched', 11)
    for fq, cname in _FACTORY_TEXT:
        fn = ctx.repo.func(fq)
        cls = ctx.repo.find_class(cname)
        init = cls.lookup('__init__')
        ctors = [c for c in ast.walk(fn.node) if isinstance(c, ast.Call) and unparse(c.func) in (cname, 'cls')]
        if not ctors:
            ctx.err(f'consume:{cname}', fn.site(), f'{cname} is constructed by its factory', 'no constructor call')
            continue
        for c in ctors:
            b = bind_args(c, init)
            a = b.get('instruction')
            d = deref(ctx, fn, a, c) if a is not None else None
            while isinstance(d, ast.Call) and isinstance(d.func, ast.Attribute) and d.func.attr == 'strip':
                d = d.func.value
                d = deref(ctx, fn, d, c)
            ok = isinstance(d, ast.Call) and isinstance(d.func, ast.Attribute) and d.func.attr == 'group' and d.args \
                and ctx.fold.try_fold(d.args[0], fn.module) in (0, 1)
            if ok and ctx.fold.try_fold(d.args[0], fn.module) == 1:
                ok = cname == 'LabelLine'   # the label pattern's group 1 is the `name:` text itself
            ctx.check(ok, f'consume:{cname}:{fn.site(c).split(":")[-1] if False else unparse(a)[:30]}', fn.site(c),
                      f'{cname} records as its own text exactly what its pattern matched (match.group(0))',
                      f'instruction text argument: {unparse(a)} = {unparse(d) if d is not None else None}'
                      + (' - the whole remaining line: any unparsable tail is silently dropped' if isinstance(d, ast.Name) else ''))
    # what a factory matches its patterns against is the text it was given (trimmed at most): text that has been rewritten
    # (case-folded, re-spaced) is not found in the line any more, and the statement loop never gets past it
    for fq in sorted({q for q, _ in _FACTORY_TEXT}):
        fn = ctx.repo.func(fq)
        tp = next((p_ for p_ in fn.param_names if p_ in ('line_str', 'instruction_str', 'instruction')), None)
        if tp is None:
            continue
        ok_txt = {tp, f'{tp}.strip()'}
        defs_ = {}
        for n in walk_no_nested(fn.node):
            if isinstance(n, ast.Assign) and len(n.targets) == 1 and isinstance(n.targets[0], ast.Name):
                defs_.setdefault(n.targets[0].id, []).append(unparse(n.value))
        clean = {k for k, v in defs_.items() if len(v) == 1 and v[0] in ok_txt}
        bad = []
        if tp in defs_:
            bad.append(f'{tp} is reassigned: {defs_[tp]}')
        for k, v in defs_.items():
            if any(x in ok_txt for x in v) and len(v) > 1:
                bad.append(f'{k} is reassigned: {v}')
        for c in ast.walk(fn.node):
            if isinstance(c, ast.Call) and isinstance(c.func, ast.Attribute) and c.func.attr in ('match', 'search', 'fullmatch', 'factory'):
                for a in c.args:
                    t = unparse(a)
                    if (tp in t or any(k in t for k in clean)) and t not in ok_txt | clean | {f'{k}.strip()' for k in clean}:
                        if isinstance(a, (ast.Name, ast.Call, ast.Subscript, ast.BinOp)) and not t.startswith(('line_id', 'comment')):
                            bad.append(f'{unparse(c.func)}(... {t} ...)')
        ctx.check(not bad, f'consume:factory-matches-given-text:{fn.cls.name if fn.cls else fn.name}', fn.site(),
                  'the patterns (and the sub-factories) of a line factory are applied to the text it was given, trimmed at most', '; '.join(bad[:3]))
    pl = ctx.repo.func(PL)
    rem = [n for n in walk_no_nested(pl.node) if isinstance(n, ast.Assign) and unparse(n.targets[0]) == 'instruction_str' and 'replace(' in unparse(n.value)]
    ok = len(rem) >= 4 and all(unparse(n.value) == "instruction_str.replace(line_obj.instruction, '', 1).strip()" for n in rem)
    ctx.check(ok, 'consume:loop-removes-object-text', pl.site(), 'the statement loop removes exactly the matched object\'s text (first occurrence) from the remaining line',
              '; '.join(sorted({unparse(n.value) for n in rem})))
    # preprocessor directives whose whole text is described by one pattern: the pattern is anchored at both ends
    import re._parser as _P
    whole = [('bespokeasm.assembler.line_object.preprocessor_line.create_memzone.CreateMemzoneLine', 'PATTERN_CREATE_MEMORY_ZONE', True),
             ('bespokeasm.assembler.line_object.preprocessor_line.define_symbol.DefineSymbolLine', 'PATTERN_DEFINE_SYMBOL', True),
             ('bespokeasm.assembler.line_object.preprocessor_line.required_language.RequiredLanguageLine', 'PATTERN_REQUIRE_LANGUAGE', True),
             ('bespokeasm.assembler.preprocessor.condition', 'PREPROCESSOR_CONDITION_IFDEF_PATTERN', False)]
    for owner, cname, is_cls in whole:
        v = ctx.fold.class_const(owner, cname) if is_cls else ctx.fold.module_const(owner, cname)
        items = list(_P.parse(v.pattern, v.flags))
        ok = bool(items) and str(items[0][0]) == 'AT' and 'BEGINNING' in str(items[0][1]) and str(items[-1][0]) == 'AT' and 'END' in str(items[-1][1])
        ctx.check(ok, f'consume:directive-pattern-whole:{cname}', f'src/{owner.replace(".", "/")}.py:1' if not is_cls else f'src/{owner.rsplit(".", 1)[0].replace(".", "/")}.py:1',
                  f'{cname} describes the whole directive (anchored at both ends): text after a valid prefix is not ignored', v.pattern[:90])
    li = ctx.repo.func('bespokeasm.assembler.line_object.LineObject.__init__')
    st = self_attr_stores(li.node, '_instruction')
    ctx.check(len(st) == 1 and unparse(st[0][2]) == 'instruction.strip()', 'consume:object-text-kept', li.site(), 'a line object keeps the text it was given (stripped)', '; '.join(unparse(s[0]) for s in st))
    gi = ctx.repo.func('bespokeasm.assembler.line_object.LineObject.instruction')
    rr = returns(gi)
    ctx.check(len(rr) == 1 and unparse(rr[0].value) == 'self._instruction', 'consume:object-text-read', gi.site(), 'line.instruction returns that text', '; '.join(unparse(r) for r in rr))


# ---------------------------------------------------------------------------------------------- C14.5

def c14_5(ctx):
    ctx.rule('C14.5', 'except handlers map to an exit or to "no match"; none swallows SystemExit / Exception', 12)
    sanctioned = {('bespokeasm.assembler.model.operand.types.numeric_expression.NumericExpressionOperand.parse_operand', 'SyntaxError'),
                  # text that is not a well-formed expression is no value of the enumeration either: "no match", the next alternative is tried
                  ('bespokeasm.assembler.model.operand.types.numeric_enumeration.NumericEnumerationOperand.parse_operand', 'SyntaxError'),
                  # ... and likewise for the other expression-bearing operand forms (a later variant may accept the text)
                  ('bespokeasm.assembler.model.operand.types.numeric_bytecode.NumericBytecode.parse_operand', 'SyntaxError'),
                  ('bespokeasm.assembler.model.operand.types.relative_address.RelativeAddressOperand.parse_operand', 'SyntaxError'),
                  ('bespokeasm.assembler.model.operand.types.indirect_register.IndirectRegisterOperand.parse_operand', 'SyntaxError')}
    n = 0
    for fn in ctx.repo.all_functions():
        for t in ast.walk(fn.node):
            if not isinstance(t, ast.Try):
                continue
            for h in t.handlers:
                n += 1
                types = [unparse(x) for x in (h.type.elts if isinstance(h.type, ast.Tuple) else [h.type])] if h.type is not None else ['<bare>']
                key = f'handler:{ctx.short(fn)}:{"|".join(types)}'
                broad = any(x in ('<bare>', 'BaseException', 'SystemExit', 'Exception') for x in types)
                if body_only_aborts(h.body):
                    ctx.check(not any(x in ('<bare>', 'BaseException', 'SystemExit') for x in types) or True, key, fn.site(h), 'handler ends the run', 'aborts')
                    continue
                no_match = len(h.body) == 1 and isinstance(h.body[0], ast.Return) and (h.body[0].value is None or (isinstance(h.body[0].value, ast.Constant) and h.body[0].value.value is None))
                if no_match and all((fn.qualname, x) in sanctioned for x in types):
                    ctx.ok(key, fn.site(h), 'sanctioned: an expression that does not parse means this operand type does not match', 'return None')
                    continue
                ctx.refute(key, fn.site(h), 'an error is either turned into an exit or (one sanctioned case) into "no match"',
                           f'except {"|".join(types)}: {"; ".join(unparse(s)[:60] for s in h.body)}' + (' - swallows every error' if broad else ''))
    if n < 12:
        ctx.err('handler:inventory', '-', 'at least 12 handlers found', f'{n}')


def c14_lines(ctx):
    """An unknown instruction can only be reported if its line reaches the parser: what is removed from a line is its comment (C18.3)."""
    from rules.c18 import c18_3
    c18_3(ctx)

def c14_scopes(ctx):
    """A reference the scope rules cannot resolve must end the run: the scope tree has the reviewed shape (C06.2), so nothing becomes resolvable by accident."""
    from rules.c06 import c06_2
    c06_2(ctx)


RULES = [c14_1, c14_2, c14_3, c14_4, c14_5, c14_lines, c14_scopes]

_E = 'assembler/engine.py'
_F = 'assembler/line_object/factory.py'
MUTANTS = [
    V('c14-unreadable-line-dropped', 'assembler/line_object/factory.py', "        else:\n            # nothing of the line could be read as statement text (e.g. a vertical tab in it): it is not an empty line\n            sys.exit(f'ERROR: {line_id} - unable to parse line \"{line_str.strip()}\"')\n", "", 'C14.3'),
    V('c14-directive-keyword-folded', 'assembler/line_object/directive_line/factory.py', "        cleaned_line_str = line_str.strip()\n        if not cleaned_line_str.startswith('.'):\n            return None\n", "        cleaned_line_str = line_str.strip()\n        if not cleaned_line_str.startswith('.'):\n            return None\n        cleaned_line_str = cleaned_line_str[:6].lower() + cleaned_line_str[6:]\n", 'C14.4'),
    V('c14-create-memzone-unanchored', 'assembler/line_object/preprocessor_line/create_memzone.py', "        r'^#create_memzone\\s+({})\\s+({})\\s+({})\\s*$'.format(", "        r'#create_memzone\\s+({})\\s+({})\\s+({})'.format(", 'C14.4'),
    V('c14-ifdef-unanchored', 'assembler/preprocessor/condition.py', "({SYMBOL_PATTERN})\\s*$'", "({SYMBOL_PATTERN})\\b'", 'C14.4'),
    V('c14-no-image-for-empty-program', 'assembler/engine.py', "        if self._generate_binary:\n", "        if self._generate_binary and last_line is not None:\n", 'C14.2'),
    V('c14-muted-lines-not-generated', 'assembler/engine.py', "            if isinstance(lobj, LineWithBytes):\n                lobj.generate_bytes()", "            if isinstance(lobj, LineWithBytes) and not lobj.is_muted:\n                lobj.generate_bytes()", 'C02.3'),
    V('c14-muted-instruction-unchecked', 'assembler/line_object/instruction_line.py', '        self._bytes.extend(self._assembled_instruction.get_bytes(', '        if self.is_muted:\n            return\n        self._bytes.extend(self._assembled_instruction.get_bytes(', 'C02.5'),
    V('c14-image-before-pass2', _E, '''        # render any pretty print before the image is written so that a failure leaves no image behind
        pretty_str = None
        if self._enable_pretty_print:
            pprinter = PrettyPrinterFactory.getPrettyPrinter(
                self._pretty_print_format,
                compilable_line_obs,
                self._model,
                self._source_file,
            )
            pretty_str = pprinter.pretty_print()
''', '''        pretty_str = None
''', 'C14.2'),
    V('c14-pretty-after-image', _E, '''        if pretty_str is not None and self._pretty_print_output == 'stdout':
            print(pretty_str)''', '''        if self._enable_pretty_print and self._pretty_print_output == 'stdout':
            pretty_str = PrettyPrinterFactory.getPrettyPrinter(self._pretty_print_format, compilable_line_obs, self._model, self._source_file).pretty_print()
            print(pretty_str)''', 'C14.2'),
    V('c14-listing-file-after-image', _E, '''        if pretty_str is not None and self._pretty_print_output == 'stdout':
            print(pretty_str)''', '''        if pretty_str is not None and self._pretty_print_output == 'stdout':
            print(pretty_str)
        if pretty_str is not None and self._pretty_print_output.endswith('.txt'):
            with open(self._pretty_print_output, 'w') as f:
                f.write(pretty_str)''', 'C14.2'),
    V('c14-unknown-continue', _F, '''                # if we are here, that means nothing was matched. Shouldn't happen, so let's error out
                sys.exit(f'ERROR: {line_id} - unknown instruction "{instruction_str.strip()}"')
''', '''                # if we are here, that means nothing was matched; skip this word
                instruction_str = instruction_str.partition(' ')[2].strip()
''', 'C14.3'),
    V('c14-swallow-all', '__main__.py', "    asm.assemble_bytecode()\n", "    try:\n        asm.assemble_bytecode()\n    except SystemExit:\n        pass\n", 'C14.5'),
    V('c14-exit-none', '__main__.py', "    asm.assemble_bytecode()\n", "    try:\n        asm.assemble_bytecode()\n    except (SyntaxError, ValueError) as err:\n        sys.exit(click.echo(f'Assembly failed: {err}', err=True))\n", 'C14.2'),
    V('c14-data-whole-line', 'assembler/line_object/data_line.py', "                values_list,\n                data_match.group(0),", "                values_list,\n                line_str,", 'C14.4'),
    V('c14-constant-whole-line', 'assembler/line_object/label_line.py', "                    constant_match.group(0),", "                    line_str,", 'C14.4'),
    V('c14-new-while', 'assembler/bytecode/packed_bits.py', "        for byte_idx in range(0, len(value_bytes)):", "        byte_idx = -1\n        while byte_idx < len(value_bytes) - 1:\n            byte_idx += len(value_bytes) // 8", 'C14.1'),
    V('c14-include-nested-regex', 'assembler/assembly_file.py', r"r'^\#include\s+(?:\'|\")([\w\.\-\_]+)(?:\'|\")'", r"r'^\#include\s+(?:\'|\")((?:[\w\.\-\_]+/?)+)(?:\'|\")'", 'C14.1'),
    V('c14-unresolved-none', 'expression/__init__.py', "            if val is None:\n                sys.exit(f'ERROR: {line_id} - Label {self.value} resolves to NONE = {self}')\n", "", 'C14.3'),
    V('c14-no-variant-none', 'assembler/bytecode/generator/instruction.py', "        sys.exit(f'ERROR: {line_id} - Instruction \"{mnemonic}\" has no valid operands configured.')\n\n    @classmethod", "        return None\n\n    @classmethod", 'C14.3'),
    V('c14-exit-after-image', _E, "        elif self._verbose > 1:\n            print('NOT writing byte code to binary image.')\n", "        elif self._verbose > 1:\n            print('NOT writing byte code to binary image.')\n        if len(bytecode) == 0:\n            sys.exit('ERROR: empty image')\n", 'C14.2'),
    V('c14-valueerror-ignored', 'assembler/line_object/preprocessor_line/create_memzone.py', "            except ValueError as v_err:\n                sys.exit(f'ERROR: {line_id} - {v_err}')", "            except ValueError as v_err:\n                print(f'WARNING: {line_id} - {v_err}')", 'C14.5'),
]
TWINS = [
    V('c14-t-exit-code', 'assembler/model/__init__.py', "            sys.exit('ERROR: unknown ISA config file type')", "            print('ERROR: unknown ISA config file type')\n            sys.exit(2)"),
]
