"""C04 - two lines never silently occupy the same address."""
import ast

from engine.index import AnalysisError
from engine.helpers import (resolver, facts_at, filter_facts_at, lit_cmp, describe_facts, calls_to, unparse,
                            walk_no_nested, deref)
from engine.lin import to_lin, clause_implies
from engine.selftest import V
from rules.c02 import first_pass_loop, second_pass_loop, ENGINE

EXPLANATION = (
    'Static rules over Assembler.assemble_bytecode. Decided: C04.1 predefined data lines are merged before the sort, the '
    'sort key is the line address only, and the overlap loop iterates that sorted list; C04.2 on every byte-producing '
    'line the previous byte-producing line is compared with the canonical strict guard prev.address + prev.byte_size > '
    'cur.address -> abort, and `prev` is updated on every byte-producing line; C04.3 no filter (muted, zone, file) sits '
    'between the list addressed by the first pass and the list checked. C04.4 (recorded argument, not machine checked): '
    'adjacent comparison over a start-sorted list with abort on the first overlap is complete for pairwise overlap of '
    'non-empty ranges. The guard works on address + byte_size, so the size/emission agreement rules C02.5 and C10.1 are '
    're-evaluated here as necessary conditions. Not decided: nothing numeric beyond the linear guard.'
)
ASSUMPTIONS = [
    'Python list.sort is stable and total on integer keys',
    'zero-length lines inside another line\'s range are neither required nor forbidden by the property and are not reported',
    'completeness of adjacent comparison on a sorted list is a recorded paper argument',
]


def c04_1(ctx):
    ctx.rule('C04.1', 'merge predefined data, sort by address, then check the sorted list', 3)
    fn = ctx.repo.func(ENGINE)
    g = ctx.cfg(fn)
    l1, l2 = first_pass_loop(ctx, fn), second_pass_loop(ctx, fn)
    lst = unparse(l2.iter)
    ctx.check(unparse(l1.iter) == lst, 'order:same-list', fn.site(l2),
              'the overlap loop iterates the very list the first pass addressed', f'first pass over {unparse(l1.iter)}, check over {lst}')
    sorts = [c for c in walk_no_nested(fn.node) if isinstance(c, ast.Call) and isinstance(c.func, ast.Attribute)
             and c.func.attr == 'sort' and unparse(c.func.value) == lst]
    exts = [c for c in walk_no_nested(fn.node) if isinstance(c, ast.Call) and isinstance(c.func, ast.Attribute)
            and c.func.attr in ('extend', 'append', 'insert') and unparse(c.func.value) == lst]
    if not sorts:
        ctx.refute('order:sorted', fn.site(l2), f'{lst} is sorted by address before the overlap check', 'no sort call found')
        return
    for s in sorts:
        key = next((k.value for k in s.keywords if k.arg == 'key'), None)
        rev = next((k.value for k in s.keywords if k.arg == 'reverse'), None)
        ok = isinstance(key, ast.Lambda) and len(key.args.args) == 1 and unparse(key.body) == f'{key.args.args[0].arg}.address' \
            and (rev is None or (isinstance(rev, ast.Constant) and rev.value is False))
        ctx.check(ok, 'order:sort-key-address', fn.site(s), 'the sort key is the line address, ascending', unparse(s))
        ctx.check(g.dominates(g.node_of(s), g.node_of(l2)) and not any(sub is s for sub in ast.walk(l2)), 'order:sort-before-check',
                  fn.site(s), 'the sort happens before the overlap loop', 'sort does not dominate the loop')
        ex1 = next(x for x in g.succ[g.node_of(l1)] if g.nodes[x].kind == 'branch' and not g.nodes[x].polarity)
        ctx.check(g.dominates(ex1, g.node_of(s)), 'order:sort-after-addresses', fn.site(s),
                  'the sort happens after every line has its address', 'sort not dominated by the end of the first pass')
    pre = [e for e in exts if 'predefined' in unparse(e.args[0])] if exts else []
    if not pre:
        ctx.refute('order:predefined-merged', fn.site(l2), 'predefined data lines are merged into the checked list', 'no extend found')
    for e in pre:
        ok = all(g.dominates(g.node_of(e), g.node_of(s)) for s in sorts)
        ctx.check(ok, 'order:predefined-before-sort', fn.site(e), 'predefined data lines are merged before the sort',
                  'merge does not dominate the sort (predefined lines would be checked out of order)')
    for e in exts:
        if e in pre:
            continue
        n = g.node_of(e)
        if any(g.reaches(g.node_of(s), n) for s in sorts):
            ctx.refute('order:no-late-insert', fn.site(e), 'nothing is added to the list after the sort', unparse(e))


def _iteration_paths_imply(ctx, fn, g, start: int, target: int, required, side_ok, res, limit: int = 2000) -> bool:
    """On every acyclic way from `start` (the entry of one loop iteration) to `target`, the branch facts collected on the way contain
    `required` - alone, or in a clause whose other literals satisfy side_ok - or a side_ok literal holds outright."""
    from engine.lin import to_cnf
    back = set()
    todo = [target]
    while todo:
        x = todo.pop()
        if x in back:
            continue
        back.add(x)
        if x != start:
            todo.extend(g.pred[x])
    n_paths = 0
    stack = [(start, [], frozenset([start]))]
    while stack:
        cur, facts, seen = stack.pop()
        if cur == target:
            n_paths += 1
            if n_paths > limit:
                raise AnalysisError('too many paths through one iteration')
            if not (clause_implies(facts, required, side_ok) or any(len(c) == 1 and side_ok(next(iter(c))) for c in facts)):
                return False
            continue
        for s in g.succ[cur]:
            if s in seen or s not in back:
                continue
            nd = g.nodes[s]
            lits = to_cnf(g.nodes[nd.test].expr, nd.polarity, res) if nd.kind == 'branch' and g.nodes[nd.test].kind == 'test' else []
            stack.append((s, facts + lits, seen | {s}))
    return n_paths > 0


def c04_2(ctx):
    ctx.rule('C04.2', 'adjacent byte-producing lines: strict overlap guard, previous line always updated', 3)
    fn = ctx.repo.func(ENGINE)
    g = ctx.cfg(fn)
    l2 = second_pass_loop(ctx, fn)
    L = l2.target.id
    res = resolver(ctx, fn, inline=False)
    # the "previous line" variable: assigned from L inside the loop
    upd = [n for n in walk_no_nested(l2) if isinstance(n, ast.Assign) and unparse(n.value) == L
           and len(n.targets) == 1 and isinstance(n.targets[0], ast.Name)]
    if not upd:
        ctx.refute('overlap:prev-updated', fn.site(l2), 'the previous byte-producing line is remembered', 'no `prev = line` in the loop')
        return
    prev = upd[0].targets[0].id
    head = g.node_of(l2)
    body_entry = next(s for s in g.succ[head] if g.nodes[s].kind == 'branch' and g.nodes[s].polarity)
    for u in upd:
        cl = facts_at(ctx, fn, u, res)
        want = lit_cmp(ctx, fn, f'{prev}.address + {prev}.byte_size <= {L}.address', res)
        ok = clause_implies(cl, want, lambda l: l == ('isnone', prev, True))
        if not ok:
            # `if prev is not None: if overlap: exit` - the fact holds on every way to the update rather than at one dominating test
            try:
                ok = _iteration_paths_imply(ctx, fn, g, body_entry, g.node_of(u), want, lambda l: l == ('isnone', prev, True), res)
            except AnalysisError:
                ok = False
        ctx.check(ok, 'overlap:strict-guard', fn.site(u),
                  f'reaching the update implies {prev} is None or {prev}.address + {prev}.byte_size <= {L}.address (else abort)',
                  describe_facts(cl))
        fcl = filter_facts_at(ctx, fn, u, res)
        lits = [l for c in fcl for l in c]
        is_lwb = ('isinstance', L, 'LineWithBytes', True)
        # a line that reserves no bytes occupies no address: leaving it out of the comparison is the one
        # content-dependent selection that keeps the check complete (it can neither overlap nor hide an overlap)
        nonempty = lit_cmp(ctx, fn, f'{L}.byte_size > 0', res)
        ok = all(len(c) == 1 for c in fcl) and is_lwb in lits and set(lits) <= {is_lwb, nonempty}
        ctx.check(ok, 'overlap:every-byte-line', fn.site(u),
                  'the comparison and update happen for every byte-producing line and only depend on its type',
                  f'selected by: {describe_facts(fcl)}')
        ctx.check(nonempty in lits, 'overlap:empty-lines-exempt', fn.site(u),
                  'a line that reserves no bytes (e.g. a .zerountil whose address is already passed) occupies no address and is never reported as overlapping',
                  'zero-sized lines take part in the comparison: a program whose byte-producing lines are disjoint is rejected when such a line sits inside another line\'s range')
    # initial value None before the loop
    init = [n for n in walk_no_nested(fn.node) if isinstance(n, ast.Assign) and len(n.targets) == 1
            and unparse(n.targets[0]) == prev and n not in upd]
    ok = len(init) == 1 and isinstance(init[0].value, ast.Constant) and init[0].value.value is None \
        and g.dominates(g.node_of(init[0]), head) and not any(sub is init[0] for sub in ast.walk(l2))
    ctx.check(ok, 'overlap:prev-starts-none', fn.site(init[0]) if init else fn.site(l2),
              f'{prev} starts as None before the loop and is only updated to the current byte-producing line',
              '; '.join(unparse(i) for i in init) or 'no initialisation')


def c04_3(ctx):
    ctx.rule('C04.3', 'no filter between addressed lines and checked lines', 1)
    fn = ctx.repo.func(ENGINE)
    l1, l2 = first_pass_loop(ctx, fn), second_pass_loop(ctx, fn)
    lst = unparse(l2.iter)
    # any rebinding of the list variable between the two loops would be a filter
    g = ctx.cfg(fn)
    rebinds = [n for n in walk_no_nested(fn.node) if isinstance(n, (ast.Assign, ast.AugAssign)) and any(
        unparse(t) == lst for t in (n.targets if isinstance(n, ast.Assign) else [n.target]))]
    late = [r for r in rebinds if g.reaches(g.node_of(l1), g.node_of(r))]
    ctx.check(not late, 'filter:list-not-rebound', fn.site(late[0]) if late else fn.site(l2),
              'the line list is not rebound (filtered) between address assignment and the overlap check',
              '; '.join(unparse(r) for r in late))
    removes = [c for c in walk_no_nested(fn.node) if isinstance(c, ast.Call) and isinstance(c.func, ast.Attribute)
               and c.func.attr in ('remove', 'pop', 'clear') and unparse(c.func.value) == lst]
    for r in removes:
        ctx.refute('filter:no-removal', fn.site(r), 'no line is removed from the checked list', unparse(r))


def c04_sizes(ctx):
    """The overlap guard compares address + byte_size: it is only as good as the agreement between the size a line
    reserves and the bytes it emits (C02.5) and, for macros, between the composite's size and its steps (C10.1)."""
    from rules.c02 import c02_5
    from rules.c10 import c10_1
    c02_5(ctx)
    c10_1(ctx)


def c04_predefined(ctx):
    """Predefined data blocks take part in the overlap check as lines: each block must become one, at its own address and size."""
    from rules.shared import cfg_accessors, cfg_data_blocks
    cfg_accessors(ctx, only=('predefined_data_blocks',))
    cfg_data_blocks(ctx)


def c04_reserved(ctx):
    """The overlap comparison uses the reserved size: it must be the size the instruction's bytes will have (C01.4 size gate, C01.6)."""
    from rules.c01 import c01_4, c01_6
    c01_4(ctx)
    c01_6(ctx)

RULES = [c04_1, c04_2, c04_3, c04_sizes, c04_predefined, c04_reserved]

_E = 'assembler/engine.py'
MUTANTS = [
    V('c04-predefined-size-from-value', _E, "            byte_length: int = predefined_memory['size']", "            byte_length: int = predefined_memory.get('length', 1)", 'CFG.2'),
    V('c04-predefined-only-nonzero', _E, "            predefined_line_obs.append(data_obj)", "            if value != 0:\n                predefined_line_obs.append(data_obj)", 'CFG.2'),
    V('c04-predefined-wrong-section', 'assembler/model/__init__.py', "            return self._config['predefined']['data']", "            return self._config['predefined'].get('data_blocks', [])", 'CFG.1'),
    V('c04-ge', _E, '(last_line.address + last_line.byte_size) > lobj.address', '(last_line.address + last_line.byte_size) >= lobj.address', 'C04.2'),
    V('c04-minus1', _E, '(last_line.address + last_line.byte_size) > lobj.address', '(last_line.address + last_line.byte_size - 1) > lobj.address', 'C04.2'),
    V('c04-no-sort', _E, '        compilable_line_obs.sort(key=lambda x: x.address)\n', '', 'C04.1'),
    V('c04-late-merge', _E, '''        compilable_line_obs.extend(predefined_line_obs)

        # Sort lines according to their assigned address. This allows for .org directives
        compilable_line_obs.sort(key=lambda x: x.address)
''', '''        # Sort lines according to their assigned address. This allows for .org directives
        compilable_line_obs.sort(key=lambda x: x.address)
        compilable_line_obs.extend(predefined_line_obs)
''', 'C04.1'),
    V('c04-skip-muted', _E, '''            if isinstance(lobj, LineWithBytes) and lobj.byte_size > 0:
                if last_line is not None and''', '''            if isinstance(lobj, LineWithBytes) and lobj.byte_size > 0 and not lobj.is_muted:
                if last_line is not None and''', 'C04.2'),
    V('c04-zero-size-line-rejected', _E, '            if isinstance(lobj, LineWithBytes) and lobj.byte_size > 0:\n                if last_line', '            if isinstance(lobj, LineWithBytes):\n                if last_line', 'C04.2'),
    V('c04-skip-small-lines', _E, '            if isinstance(lobj, LineWithBytes) and lobj.byte_size > 0:\n                if last_line', '            if isinstance(lobj, LineWithBytes) and lobj.byte_size > 1:\n                if last_line', 'C04.2'),
    V('c04-prev-only-instr', _E, '                last_line = lobj\n', '                if lobj.byte_size > 1:\n                    last_line = lobj\n', 'C04.2'),
    V('c04-same-zone-only', _E, 'if last_line is not None and (last_line.address', 'if last_line is not None and last_line.memory_zone is lobj.memory_zone and (last_line.address', 'C04.2'),
    V('c04-sort-key', _E, 'compilable_line_obs.sort(key=lambda x: x.address)', 'compilable_line_obs.sort(key=lambda x: x.line_id.line_num)', 'C04.1'),
    V('c04-filter-list', _E, "        # second pass: build the machine code and check for overlaps\n",
      "        compilable_line_obs = [x for x in compilable_line_obs if not x.is_muted]\n", 'C04.3'),
    V('c04-no-predefined', _E, '        compilable_line_obs.extend(predefined_line_obs)\n', '', 'C04.1'),
]
TWINS = [
    V('c04-t-flip', _E, '(last_line.address + last_line.byte_size) > lobj.address', 'lobj.address < (last_line.byte_size + last_line.address)'),
    V('c04-t-sub', _E, '(last_line.address + last_line.byte_size) > lobj.address', 'last_line.address + last_line.byte_size - lobj.address > 0'),
    V('c04-t-reverse-false', _E, 'compilable_line_obs.sort(key=lambda x: x.address)', 'compilable_line_obs.sort(key=lambda lo: lo.address, reverse=False)'),
]
