"""C19 - malformed ISA definitions and unmet version requirements are rejected."""
import ast

from engine.index import AnalysisError
from engine.helpers import (resolver, facts_at, filter_facts_at, lit_cmp, describe_facts, unparse, walk_no_nested, returns,
                            deref, body_only_aborts, calls_to, reaching_def, is_abort_stmt, self_attr_stores, all_paths_imply)
from engine.lin import clause_implies, to_cnf
from engine.fold import Ref
from engine.types import bind_args
from engine.selftest import V

MODEL = 'bespokeasm.assembler.model.AssemblerModel'
ISET = 'bespokeasm.assembler.model.instruction_set.InstructionSet'
OP = 'bespokeasm.assembler.model.operand_parser'
RL = 'bespokeasm.assembler.line_object.preprocessor_line.required_language.RequiredLanguageLine'

EXPLANATION = (
    'Static rules over model construction and the #require line. Decided: C19.1 the obligation table: each clause of the '
    'property maps to a guard whose alternative is an exit reachable from AssemblerModel construction (general / '
    'instructions present; registers, mnemonics and macro names not keywords - compared in lower case; macro names not '
    'instruction names; referenced operand sets exist; operand count equals the number of sets; register operands name a '
    'declared register; numeric ranges not inverted; zones inside the address space and not inverted; origin not below a '
    'redefined GLOBAL; unknown operand type / bytecode position rejected), every function holding such a guard is reached by explicit calls from the model constructor and every declared operand set is built there, used or not; C19.2 every ordering comparison on a version '
    'string has both operands produced directly by packaging.version.parse; C19.3 #require: operator table, language name '
    'mismatch rejected on every matched #require line, model version compared with the required one in that order; C19.4 '
    'the ISA version string is validated against the semantic version pattern; the keyword table against which names are rejected holds every directive and every expression function the lexer recognises (C06.3 re-evaluated). Not decided: completeness (well-formed '
    'definitions are never rejected).'
)
ASSUMPTIONS = ['packaging.version.Version ordering is semantic-version ordering', 'an uncaught KeyError/TypeError during model construction is a rejection']


def _exit_guard(ctx, fn, pred, key, desc):
    """An `if <test>: <abort>` whose test satisfies pred(unparse(test))."""
    hits = [i for i in walk_no_nested(fn.node) if isinstance(i, ast.If) and body_only_aborts(i.body) and pred(unparse(i.test))]
    ctx.check(bool(hits), key, fn.site(hits[0]) if hits else fn.site(), desc, 'no such aborting check')
    return hits


def c19_1(ctx):
    ctx.rule('C19.1', 'obligation table: every malformedness clause has a guard that exits', 14)
    vc = ctx.repo.func(MODEL + '._validate_config')
    _exit_guard(ctx, vc, lambda t: t == "'general' not in self._config", 'wellformed:general-present', 'a definition without a general section is rejected')
    _exit_guard(ctx, vc, lambda t: t == "'instructions' not in self._config", 'wellformed:instructions-present', 'a definition without an instructions section is rejected')
    h = _exit_guard(ctx, vc, lambda t: 'default_origin' in t and "zone['start']" in t, 'wellformed:origin-in-GLOBAL', 'an origin below the start of a redefined GLOBAL zone is rejected')
    for i in h:
        res = resolver(ctx, vc, inline=False)
        want_ = frozenset({lit_cmp(ctx, vc, "self.default_origin < zone['start']", res)})
        cl = facts_at(ctx, vc, i.body[0], res)
        mine = to_cnf(i.test, True, res)
        ok = want_ in mine and all(c == want_ or "'GLOBAL'" in describe_facts([c]) for c in mine)
        ok = ok and any("'GLOBAL'" in describe_facts([c]) for c in cl)
        ctx.check(ok, 'wellformed:origin-in-GLOBAL:exact', vc.site(i), 'rejected exactly when origin < GLOBAL.start', unparse(i.test))
    init = ctx.repo.func(MODEL + '.__init__')
    g = ctx.cfg(init)
    vcall = [c for c in ast.walk(init.node) if isinstance(c, ast.Call) and unparse(c.func) == 'self._validate_config']
    sets = [c for c in ast.walk(init.node) if isinstance(c, ast.Call) and unparse(c.func) in ('OperandSetCollection', 'InstructionSet')]
    ok = len(vcall) == 1 and len(sets) == 2 and all(g.dominates(g.node_of(vcall[0]), g.node_of(s)) for s in sets)
    ctx.check(ok, 'wellformed:validated-first', init.site(), 'the configuration is validated before operand sets and instructions are built', '')
    # registers not keywords
    res = resolver(ctx, init, inline=False)
    regloop = [l for l in walk_no_nested(init.node) if isinstance(l, ast.For) and unparse(l.iter) == 'self._registers']
    ok = len(regloop) == 1 and len(regloop[0].body) == 1 and isinstance(regloop[0].body[0], ast.If) and body_only_aborts(regloop[0].body[0].body) \
        and unparse(regloop[0].body[0].test) == f'{unparse(regloop[0].target)} in ASSEMBLER_KEYWORD_SET'
    ctx.check(ok, 'wellformed:register-not-keyword', init.site(regloop[0]) if regloop else init.site(), 'a register named like an assembler keyword is rejected', '')
    st = self_attr_stores(init.node, '_registers')
    ctx.check(len(st) == 1 and 'registers' in unparse(st[0][2]), 'wellformed:registers-source', init.site(), 'the register set is general.registers', '; '.join(unparse(s[0]) for s in st))
    # instruction set: keywords, collisions - all on the lower-cased name
    isf = ctx.repo.func(ISET + '.__init__')
    ri = resolver(ctx, isf, inline=False)
    lk = [n for n in walk_no_nested(isf.node) if isinstance(n, ast.Assign) and unparse(n.targets[0]) == 'lower_keywords']
    ok = len(lk) == 1 and unparse(lk[0].value) == '{kw.lower(): kw for kw in ASSEMBLER_KEYWORD_SET}'
    ctx.check(ok, 'wellformed:keywords-lowercased', isf.site(), 'keywords are compared in lower case', '; '.join(unparse(x) for x in lk))
    for lp in [l for l in walk_no_nested(isf.node) if isinstance(l, ast.For) and isinstance(l.target, ast.Tuple) and unparse(l.target.elts[0]) == 'mnemonic']:
        what = 'instruction' if 'instructions' in unparse(lp.iter) else 'macro'
        kwchk = [i for i in lp.body if isinstance(i, ast.If) and unparse(i.test) == 'mnemonic in lower_keywords' and body_only_aborts(i.body)]
        ok = len(kwchk) == 1
        if ok:
            d = reaching_def(ctx, isf, 'mnemonic', kwchk[0])
            ok = d is not None and unparse(d) == 'mnemonic.lower()'
        ctx.check(ok, f'wellformed:{what}-not-keyword', isf.site(kwchk[0]) if kwchk else isf.site(lp),
                  f'a {what} whose lower-cased name is an assembler keyword is rejected', 'the check is missing or sees the raw spelling')
        if what == 'macro':
            col = [i for i in lp.body if isinstance(i, ast.If) and unparse(i.test) == 'mnemonic in self' and body_only_aborts(i.body)]
            ok = len(col) == 1
            if ok:
                d = reaching_def(ctx, isf, 'mnemonic', col[0])
                ok = d is not None and unparse(d) == 'mnemonic.lower()'
            ctx.check(ok, 'wellformed:macro-not-instruction', isf.site(col[0]) if col else isf.site(lp),
                      'a macro whose lower-cased name is an instruction mnemonic is rejected', 'the check is missing or sees the raw spelling')
        reg = [c for c in ast.walk(lp) if isinstance(c, ast.Call) and unparse(c.func) in ('Instruction', 'InstructionMacro')]
        ok = len(reg) == 1 and unparse(reg[0].args[0]) == 'mnemonic' and all(g_.lineno < reg[0].lineno for g_ in kwchk)
        ctx.check(ok, f'wellformed:{what}-registered-after-checks', isf.site(reg[0]) if reg else isf.site(lp), f'the {what} is built under the checked name, after the checks', '')
    # operand set reference and count
    om = ctx.repo.func(OP + '.OperandSetsModel.__init__')
    ro = resolver(ctx, om, inline=False)
    app = [c for c in ast.walk(om.node) if isinstance(c, ast.Call) and unparse(c.func) == 'self._operand_sets.append']
    ok = len(app) == 1 and clause_implies(facts_at(ctx, om, app[0], ro), ('isnone', unparse(app[0].args[0]), False))
    g2 = ctx.cfg(om)
    if ok:
        lp = g2.loop_facts(g2.node_of(app[0]))[-1][0]
        head = g2.node_of(lp)
        be = next(s for s in g2.succ[head] if g2.nodes[s].kind == 'branch' and g2.nodes[s].polarity)
        ok = g2.all_paths_through(be, head, {g2.node_of(app[0])})
        d = reaching_def(ctx, om, unparse(app[0].args[0]), app[0])
        ok = ok and d is not None and unparse(d) == f'operand_set_collection.get_operand_set({unparse(lp.target)})'
    ctx.check(ok, 'wellformed:operand-set-exists', om.site(), 'a reference to an undeclared operand set is rejected', '')
    _exit_guard(ctx, om, lambda t: t == "'list' not in self._config", 'wellformed:operand-set-list', 'operand_sets without a list is rejected')
    va = ctx.repo.func(OP + '.OperandParser.validate')
    h = _exit_guard(ctx, va, lambda t: 'operand_count' in t and '_operand_sets_model' in t, 'wellformed:count=number-of-sets', 'an operand count that differs from the number of operand sets is rejected')
    for i in h:
        rv = resolver(ctx, va, inline=False)
        cl = to_cnf(i.test, True, rv)
        ok = frozenset({lit_cmp(ctx, va, 'self.operand_count != self._operand_sets_model.operand_count', rv)}) in cl and \
            frozenset({('isnone', 'self._operand_sets_model', False)}) in cl and len(cl) == 2
        ctx.check(ok, 'wellformed:count=number-of-sets:exact', va.site(i), 'rejected exactly when count != number of sets', unparse(i.test))
    # explicitly listed operand combinations: each has as many operands as the count says
    from engine.helpers import seq_view
    hs = [i for i in ast.walk(va.node) if isinstance(i, ast.If) and body_only_aborts(i.body) and '_operand_sets_model' not in unparse(i.test) and 'operand_count' in unparse(i.test)]
    ok = len(hs) == 1
    if ok:
        rv = resolver(ctx, va, inline=False)
        fcl = filter_facts_at(ctx, va, hs[0], rv)
        loops = [l for l in walk_no_nested(va.node) if isinstance(l, ast.For) and any(x is hs[0] for x in ast.walk(l))]
        ok = len(loops) == 1 and unparse(loops[0].iter) == 'self._specific_operands_model.operand_counts' \
            and to_cnf(hs[0].test, True, rv) == [frozenset({lit_cmp(ctx, va, f'{unparse(loops[0].target)} != self.operand_count', rv)})] \
            and fcl == [frozenset({('isnone', 'self._specific_operands_model', False)})]
    ctx.check(ok, 'wellformed:count=length-of-specific-combinations', va.site(hs[0]) if hs else va.site(),
              'an explicitly listed operand combination whose length differs from the operand count is rejected', '; '.join(unparse(i.test) for i in hs) or 'no such check')
    oc = ctx.repo.func(OP + '.SpecificOperandsModel.operand_counts')
    sv = [r for r in returns(oc)]
    ok = len(sv) == 1 and isinstance(sv[0].value, (ast.ListComp, ast.GeneratorExp)) and unparse(sv[0].value.generators[0].iter) == 'self._specific_operands' \
        and not sv[0].value.generators[0].ifs and unparse(sv[0].value.elt) == f'{unparse(sv[0].value.generators[0].target)}.operand_count'
    ctx.check(ok, 'wellformed:specific-combination-lengths', oc.site(), 'operand_counts lists the length of every explicitly listed combination', '; '.join(unparse(r) for r in sv))
    # relative-address ranges are not inverted
    ri = ctx.repo.func('bespokeasm.assembler.model.operand.types.relative_address.RelativeAddressOperand.__init__')
    rr_ = resolver(ctx, ri, inline=False)
    hs = [i for i in walk_no_nested(ri.node) if isinstance(i, ast.If) and body_only_aborts(i.body)]
    ok = False
    seen_ = 'no such check'
    for i in hs:
        # everything the exit depends on: the test itself and whatever encloses it - only "both bounds are configured" and max < min
        cl = to_cnf(i.test, True, rr_) + facts_at(ctx, ri, i, rr_)
        seen_ = describe_facts(cl)
        ok = ok or (frozenset({lit_cmp(ctx, ri, 'self.max_offset < self.min_offset', rr_)}) in cl and all(
            len(c) == 1 and ((next(iter(c))[0] == 'isnone' and next(iter(c))[-1] is False) or c == frozenset({lit_cmp(ctx, ri, 'self.max_offset < self.min_offset', rr_)})) for c in cl))
    ctx.check(ok, 'wellformed:relative-range-not-inverted', ri.site(hs[0]) if hs else ri.site(),
              'a relative-address operand with max < min is rejected (whenever both bounds are configured, a bound of 0 included)', seen_)
    for q in ('bespokeasm.assembler.model.instruction.InstructionVariant.__init__', 'bespokeasm.assembler.model.instruction_macro.InstructionMacroVariant.__init__'):
        f = ctx.repo.func(q)
        vcs = [c for c in ast.walk(f.node) if isinstance(c, ast.Call) and unparse(c.func) == 'self._operand_parser.validate']
        ctx.check(len(vcs) == 1, f'wellformed:count-validated:{f.cls.name}', f.site(), 'every variant with operands validates its operand count', f'{len(vcs)} validate calls')
    _exit_guard(ctx, ctx.repo.func(OP + '.OperandParser.__init__'), lambda t: t == "'count' not in self._config", 'wellformed:count-present', 'operands without a count are rejected')
    oc = ctx.repo.func(OP + '.OperandParser.operand_count')
    rr = returns(oc)
    ctx.check(len(rr) == 1 and unparse(rr[0].value) == "self._config['count']", 'wellformed:count-key', oc.site(), 'operand_count is the configured count', '; '.join(unparse(r) for r in rr))
    ro_ = ctx.repo.func('bespokeasm.assembler.model.operand.types.register.RegisterOperand.__init__')
    _exit_guard(ctx, ro_, lambda t: t == f'self.register not in {ro_.call_params[3].arg}', 'wellformed:register-declared', 'a register operand naming an undeclared register is rejected')
    nb = ctx.repo.func('bespokeasm.assembler.model.operand.types.numeric_bytecode.NumericBytecode.__init__')
    h = _exit_guard(ctx, nb, lambda t: 'bytecode_max' in t and 'bytecode_min' in t, 'wellformed:range-not-inverted', 'max < min is rejected')
    for i in h:
        rn = resolver(ctx, nb, inline=False)
        outer = facts_at(ctx, nb, i, rn)
        ctx.check(to_cnf(i.test, True, rn) == [frozenset({lit_cmp(ctx, nb, 'self.bytecode_max < self.bytecode_min', rn)})] and not outer,
                  'wellformed:range-not-inverted:exact', nb.site(i),
                  'rejected exactly when max < min (for every pair of bounds, zero included)', f'{unparse(i.test)} under {describe_facts(outer)}')
    of = ctx.repo.func('bespokeasm.assembler.model.operand.factory.OperandFactory.factory')
    top = next((s for s in of.node.body if isinstance(s, ast.If)), None)
    cur = top
    while cur is not None and cur.orelse and isinstance(cur.orelse[0], ast.If):
        cur = cur.orelse[0]
    ctx.check(cur is not None and bool(cur.orelse) and body_only_aborts(cur.orelse), 'wellformed:unknown-operand-type', of.site(), 'an unknown operand type is rejected', '')
    bp = ctx.repo.func('bespokeasm.assembler.model.operand.Operand.bytecode_position')
    inner = [i for i in walk_no_nested(bp.node) if isinstance(i, ast.If) and "'suffix'" in unparse(i.test)]
    cur = inner[0] if inner else None
    while cur is not None and cur.orelse and isinstance(cur.orelse[0], ast.If):
        cur = cur.orelse[0]
    ctx.check(cur is not None and bool(cur.orelse) and body_only_aborts(cur.orelse), 'wellformed:unknown-position', bp.site(), 'an unknown bytecode position is rejected', '')
    # the guards above are of use only if they run when the definition is loaded: every function that holds one is reached, by
    # explicit calls, from the model's constructor; and every declared operand set is built there (not on first use)
    reach = ctx.cg.reachable([init])
    for q in (OP + '.OperandParser.__init__', 'bespokeasm.assembler.model.operand.types.register.RegisterOperand.__init__',
              'bespokeasm.assembler.model.operand.types.numeric_bytecode.NumericBytecode.__init__',
              'bespokeasm.assembler.model.operand.factory.OperandFactory.factory', ISET + '.__init__',
              'bespokeasm.assembler.model.operand_set.OperandSet.__init__'):
        gf = ctx.repo.func(q)
        ctx.check(any(f is gf or f == gf for f in reach.values()), f'wellformed:checked-at-load:{ctx.short(gf)}', gf.site(),
                  'the function holding this well-formedness guard is reached by explicit calls from AssemblerModel.__init__ (the definition is checked when it is loaded, whether or not a program uses the part)',
                  'not reachable in the call graph from the model constructor')
    oc_init = ctx.repo.func('bespokeasm.assembler.model.operand_set.OperandSetCollection.__init__')
    built = False
    for lp in [l for l in walk_no_nested(oc_init.node) if isinstance(l, ast.For)]:
        if '.items()' in unparse(lp.iter) or unparse(lp.iter) in [a.arg for a in oc_init.call_params]:
            gl = ctx.cfg(oc_init)
            cs = [c for c in ast.walk(lp) if isinstance(c, ast.Call) and unparse(c.func) == 'OperandSet']
            if len(cs) == 1 and gl.has_node(cs[0]):
                head = gl.node_of(lp)
                be = next((x for x in gl.succ[head] if gl.nodes[x].kind == 'branch' and gl.nodes[x].polarity), None)
                built = be is not None and gl.all_paths_through(be, head, {gl.node_of(cs[0])})
    if not built:
        # a comprehension / update over all items
        for n in ast.walk(oc_init.node):
            if isinstance(n, (ast.DictComp, ast.GeneratorExp, ast.ListComp)) and not any(g_.ifs for g_ in n.generators) \
                    and any(isinstance(c, ast.Call) and unparse(c.func) == 'OperandSet' for c in ast.walk(n)):
                built = True
    ctx.check(built, 'wellformed:every-operand-set-built-at-load', oc_init.site(),
              'the collection builds an OperandSet for every declared operand set in its constructor, unconditionally', 'no unconditional construction per item found')
    # zones: predefined zones are built through MemoryZone (whose constructor guards are C05.3)
    mm = ctx.repo.func('bespokeasm.assembler.memory_zone.manager.MemoryZoneManager.__init__')
    mz = [c for c in ast.walk(mm.node) if isinstance(c, ast.Call) and unparse(c.func) == 'MemoryZone']
    ok = len(mz) == 2 and any([unparse(a) for a in c.args] == ['address_bits', "mz['start']", "mz['end']", "mz['name']"] for c in mz)
    ctx.check(ok, 'wellformed:zones-through-constructor', mm.site(), 'predefined zones are built by the MemoryZone constructor (address width and inversion checks)', '; '.join(unparse(c) for c in mz))
    from rules.c05 import c05_3
    c05_3(ctx)


def c19_validated(ctx):
    ctx.rule('C19.5', 'every variant that has an operands section gets an operand parser and is validated', 2)
    for q in ('bespokeasm.assembler.model.instruction.InstructionVariant.__init__', 'bespokeasm.assembler.model.instruction_macro.InstructionMacroVariant.__init__'):
        f = ctx.repo.func(q)
        res = resolver(ctx, f, inline=False)
        vs = [c for c in ast.walk(f.node) if isinstance(c, ast.Call) and unparse(c.func) == 'self._operand_parser.validate']
        ok = len(vs) == 1
        why = f'{len(vs)} validate call(s)'
        if ok:
            fcl = filter_facts_at(ctx, f, vs[0], res)
            ok = fcl == [frozenset({('in', "'operands'", 'self._variant_config', True)})]
            why = describe_facts(fcl)
            pcs = [c for c in ast.walk(f.node) if isinstance(c, ast.Call) and unparse(c.func) == 'OperandParser']
            ok = ok and len(pcs) == 1 and filter_facts_at(ctx, f, pcs[0], res) == fcl
        ctx.check(ok, f'wellformed:variant-validated:{f.cls.name}', f.site(vs[0]) if vs else f.site(),
                  'the operand parser is built and validated whenever the variant has an operands section (whatever its count)',
                  f'built / validated only when {why}: operand count and operand-set references of the other variants are never checked')


def c19_2(ctx):
    ctx.rule('C19.2', 'version gates compare parsed semantic versions', 2)
    vc = ctx.repo.func(MODEL + '._validate_config')
    names = ('BESPOKEASM_VERSION_STR', 'BESPOKEASM_MIN_REQUIRED_STR', 'required_version', 'min_version')
    n = 0
    seen = {}
    for c in [c for c in ast.walk(vc.node) if isinstance(c, ast.Compare) and len(c.ops) == 1 and isinstance(c.ops[0], (ast.Lt, ast.Gt, ast.LtE, ast.GtE))]:
        sides = [c.left, c.comparators[0]]
        ders = [deref(ctx, vc, s, c) for s in sides]
        if not any(any(nm in unparse(x) for nm in names) for x in sides + ders):
            continue
        n += 1

        def parsed(e):
            return isinstance(e, ast.Call) and unparse(e.func) in ('version.parse', 'version.Version', 'Version', 'parse')
        ok = all(parsed(x) for x in ders)
        which = 'running' if any('BESPOKEASM_VERSION_STR' in unparse(x) for x in ders) else 'minimum'
        seen[which] = (type(c.ops[0]).__name__, [unparse(x) for x in ders])
        ctx.check(ok, f'version:min_version-gates:{which}', vc.site(c), 'both operands of a version comparison are packaging version objects (semantic version ordering)',
                  f'{unparse(c)} compares {[unparse(x) for x in ders]}'
                  + (' - strings compare lexicographically (0.4.10 < 0.4.3)' if not any(parsed(x) for x in ders) else ' - a derived tuple/attribute is not semantic-version ordering'))
        if ok:
            body = next((i for i in walk_no_nested(vc.node) if isinstance(i, ast.If) and i.test is c), None)
            ctx.check(body is not None and body_only_aborts(body.body), f'version:gate-exits:{which}', vc.site(c), 'an unmet version gate is an exit', '')
            a0, a1 = [unparse(x.args[0]) for x in ders]
            if which == 'running':
                good = ('required_version' in a0 and 'BESPOKEASM_VERSION_STR' in a1 and isinstance(c.ops[0], ast.Gt)) or \
                       ('BESPOKEASM_VERSION_STR' in a0 and 'required_version' in a1 and isinstance(c.ops[0], ast.Lt))
                ctx.check(good, 'version:newer-assembler-demanded', vc.site(c), 'rejected exactly when the demanded version is greater than the running one', unparse(c))
            else:
                good = ('required_version' in a0 and 'BESPOKEASM_MIN_REQUIRED_STR' in a1 and isinstance(c.ops[0], ast.Lt)) or \
                       ('BESPOKEASM_MIN_REQUIRED_STR' in a0 and 'required_version' in a1 and isinstance(c.ops[0], ast.Gt))
                ctx.check(good, 'version:older-format', vc.site(c), 'rejected exactly when the demanded version is less than the minimum supported one', unparse(c))
    if n < 2:
        ctx.refute('version:min_version-gates', vc.site(), 'min_version is compared with the running and the minimum supported version', f'{n} comparisons found')
    rv = [a for a in walk_no_nested(vc.node) if isinstance(a, ast.Assign) and unparse(a.targets[0]) == 'required_version']
    ctx.check(len(rv) == 1 and unparse(rv[0].value) == "self._config['general']['min_version']", 'version:min_version-key', vc.site(), 'the demanded version is general.min_version', '; '.join(unparse(x) for x in rv))


def const_str_(e):
    return e.value if isinstance(e, ast.Constant) and isinstance(e.value, str) else None


_OPS = {'>=': 'operator.ge', '<=': 'operator.le', '>': 'operator.gt', '<': 'operator.lt', '==': 'operator.eq'}


def c19_3(ctx):
    ctx.rule('C19.3', '#require: operator table, language name, comparison order', 6)
    table = ctx.fold.class_const(RL, 'COMPARISON_ACTIONS')
    site = 'src/bespokeasm/assembler/line_object/preprocessor_line/required_language.py:18'
    got = {k: (v.get('check').dotted if isinstance(v.get('check'), Ref) else repr(v.get('check'))) for k, v in table.items()}
    ctx.check(got == _OPS, 'require:operator-table', site, 'each comparison string maps to the same-named comparison', str(got))
    pat = ctx.fold.class_const(RL, 'PATTERN_REQUIRE_LANGUAGE').pattern
    ctx.check('(==|>=|<=|>|<)' in pat, 'require:pattern-operators', site, 'the pattern recognises the five operators', pat[:80])
    # shape of the requirement syntax: "<name>[ ws* <op> ws* <version>]" - blanks around the operator are optional
    import re as _re
    import re._parser as _P
    rx_ = ctx.fold.class_const(RL, 'PATTERN_REQUIRE_LANGUAGE')
    items = list(_P.parse(rx_.pattern, rx_.flags))
    g1 = next((av for op, av in items if str(op) == 'SUBPATTERN' and av[0] == 1), None)
    opt = next((av for op, av in items if str(op) == 'MAX_REPEAT' and av[0] == 0 and av[1] == 1), None)

    def _ws_min(it):
        op, av = it
        if str(op) == 'MAX_REPEAT' and len(av[2]) == 1 and str(av[2][0][0]) == 'IN' and any(str(a) == 'CATEGORY' and str(b) == 'CATEGORY_SPACE' for a, b in av[2][0][1]):
            return av[0]
        return None
    ok = g1 is not None and opt is not None
    why = 'no optional version clause after the name group'
    if ok:
        seq = list(opt[2])
        kinds = [('ws', _ws_min(it)) if _ws_min(it) is not None else ('grp', it[1][0]) if str(it[0]) == 'SUBPATTERN' else ('other', None) for it in seq]
        ok = kinds == [('ws', 0), ('grp', 2), ('ws', 0), ('grp', 3)]
        why = f'version clause is {kinds}'
    ctx.check(ok, 'require:pattern-optional-blanks', site, 'the version clause is <blanks?> operator <blanks?> version: "name>=1.0" and "name >= 1.0" are the same requirement', why)
    ok = False
    if g1 is not None and len(g1[3]) == 1 and str(g1[3][0][0]) == 'MAX_REPEAT' and str(g1[3][0][1][2][0][0]) == 'IN':
        from engine.rx import set_chars
        cs = set_chars(g1[3][0][1][2][0][1], bool(rx_.flags & _re.I))
        ok = set('abcxyzABCXYZ0189_-.') <= set(cs) and not (set(' <>="') & set(cs))
    ctx.check(ok, 'require:pattern-name-class', site, 'a language name may contain letters, digits, "_", "-" and "." and stops at blanks, quotes and operator characters', '')
    qi = [i for i, (op, av) in enumerate(items) if str(op) == 'LITERAL' and av == 34]
    tail_ = items[qi[1] + 1:] if len(qi) == 2 else None
    # after the closing quote only blanks and the end of the directive may follow
    tail_ok = tail_ is not None and all(str(op) == 'AT' or (str(op) == 'MAX_REPEAT' and av[0] == 0 and len(av[2]) == 1 and str(av[2][0][0]) == 'IN') for op, av in tail_)
    ctx.check(len(qi) == 2 and str(items[qi[0] + 1][0]) == 'SUBPATTERN' and tail_ok, 'require:pattern-quoted', site,
              'the requirement is everything between the two double quotes (the closing quote follows the name or the version directly)', '')
    init = ctx.repo.func(RL + '.__init__')
    res = resolver(ctx, init, inline=False)
    # a #require line the pattern does not match is an error, not a comment
    g = ctx.cfg(init)
    ok_, why_ = all_paths_imply(ctx, init, g.exit, ('isnone', 'require_match', False), res=res)
    ctx.check(ok_, 'require:unmatched-line-exits', init.site(), 'a #require line that the pattern does not match never completes normally (it is an error, not a line to skip)',
              f'the constructor returns normally on a {why_}: the requirement is silently ignored')
    name_chk = [i for i in walk_no_nested(init.node) if isinstance(i, ast.If) and body_only_aborts(i.body) and 'isa_name' in unparse(i.test)]
    ok = len(name_chk) == 1 and unparse(name_chk[0].test) in ('self._language != isa_model.isa_name', 'isa_model.isa_name != self._language')
    if ok:
        fcl = filter_facts_at(ctx, init, name_chk[0], res)
        ok = fcl in ([], [frozenset({('isnone', 'require_match', False)})])
        why = describe_facts(fcl)
    else:
        why = '; '.join(unparse(i.test) for i in name_chk)
    ctx.check(ok, 'require:language-name', init.site(name_chk[0]) if name_chk else init.site(),
              'a #require naming another language is rejected on every matched #require line (with or without a version clause)', f'checked under: {why}')
    st = self_attr_stores(init.node, '_language')
    ctx.check(len(st) == 1 and 'group(1)' in unparse(st[0][2]), 'require:language=group1', init.site(), 'the language name is pattern group 1', '; '.join(unparse(s[0]) for s in st))
    chk = [c for c in ast.walk(init.node) if isinstance(c, ast.Call) and isinstance(c.func, ast.Subscript) and "['check']" in unparse(c.func)]
    ok = len(chk) == 1
    if ok:
        a0, a1 = (deref(ctx, init, a, chk[0]) for a in chk[0].args)
        a1s = unparse(a1)
        if unparse(chk[0].args[1]).startswith('self.'):
            s_ = self_attr_stores(init.node, unparse(chk[0].args[1]).split('.')[1])
            a1s = unparse(s_[0][2]) if len(s_) == 1 else a1s
            if len(s_) == 1 and isinstance(s_[0][2], ast.Call):
                a1s = unparse(s_[0][2])
        # the right-hand side is version.parse(<the text of pattern group 3>), whether or not that text has a name of its own
        a1e = ast.parse(a1s, mode='eval').body
        req_txt = None
        if isinstance(a1e, ast.Call) and unparse(a1e.func) == 'version.parse' and len(a1e.args) == 1:
            req_txt = a1e.args[0]
            if isinstance(req_txt, ast.Name):
                req_txt = reaching_def(ctx, init, req_txt.id, chk[0])
        ok = unparse(a0) == 'version.parse(isa_model.isa_version)' and req_txt is not None and 'group(3)' in unparse(req_txt) \
            and "COMPARISON_ACTIONS[self._operator_str]" in unparse(chk[0].func)
        os_ = self_attr_stores(init.node, '_operator_str')
        ok = ok and len(os_) == 1 and 'group(2)' in unparse(os_[0][2])
    ctx.check(ok, 'require:compares-model-with-required', init.site(chk[0]) if chk else init.site(),
              'the ISA\'s version (left) is compared with the required version (right), both parsed, by the operator written (group 2 / group 3)', unparse(chk[0])[:150] if chk else '')
    if chk:
        stmt = next((i for i in walk_no_nested(init.node) if isinstance(i, ast.If) and any(x is chk[0] for x in ast.walk(i.test))), None)
        ok = stmt is not None and isinstance(stmt.test, ast.UnaryOp) and isinstance(stmt.test.op, ast.Not) and body_only_aborts(stmt.body)
        ctx.check(ok, 'require:unmet-exits', init.site(stmt) if stmt else init.site(), 'an unmet requirement is an exit', '')
    mv = ctx.repo.func(MODEL + '.isa_version')
    rr = returns(mv)
    ctx.check(len(rr) == 1 and unparse(rr[0].value) == 'self._isa_version', 'require:model-version', mv.site(), 'isa_version is the definition\'s version', '')
    mn = ctx.repo.func(MODEL + '.isa_name')
    rr = returns(mn)
    ctx.check(len(rr) == 1 and unparse(rr[0].value) == 'self._isa_name', 'require:model-name', mn.site(), 'isa_name is the definition\'s name', '')
    # where the language name comes from: general.identifier.name, else the definition file's base name minus its (last) extension
    minit = ctx.repo.func(MODEL + '.__init__')
    path_param = minit.param_names[1] if len(minit.param_names) > 1 else None
    stores = self_attr_stores(minit.node, '_isa_name')
    _STEM = (f'os.path.splitext(os.path.basename({path_param}))[0]', f'pathlib.Path({path_param}).stem', f'Path({path_param}).stem',
             f'os.path.basename(os.path.splitext({path_param})[0])')
    n_src = 0
    for st, tgt, val in stores:
        v = val
        txt = unparse(v) if v is not None else ''
        if txt.startswith('self._isa_name.'):
            ok = txt == "self._isa_name.strip().replace(' ', '_')"
            ctx.check(ok, 'require:name-normalised', minit.site(st), 'the name is only normalised by trimming and replacing blanks with "_"', txt)
            continue
        n_src += 1
        if isinstance(v, ast.Call) and isinstance(v.func, ast.Attribute) and v.func.attr == 'get' and len(v.args) == 2:
            ok = unparse(v.func.value) == "self._config['general']['identifier']" and const_str_(v.args[0]) == 'name'
            d = deref(ctx, minit, v.args[1], st)
            ok = ok and unparse(d) in _STEM
            txt = f'{txt} with default {unparse(d)}'
        else:
            d = deref(ctx, minit, v, st) if v is not None else None
            ok = d is not None and unparse(d) in _STEM
            txt = unparse(d) if d is not None else txt
        ctx.check(ok, f'require:name-source:{n_src}', minit.site(st),
                  'the language name is general.identifier.name, defaulting to the definition file\'s base name without its last extension',
                  f'name taken from {txt}')
    if n_src < 2:
        ctx.err('require:name-source', minit.site(), 'two sources of the language name (identifier section present / absent)', f'{n_src}')


def c19_4(ctx):
    ctx.rule('C19.4', 'the ISA version string must be a semantic version', 1)
    init = ctx.repo.func(MODEL + '.__init__')
    # the version compared by #require is the version as written in the definition (tags such as rc1 included)
    for st_, t_, v_ in self_attr_stores(init.node, '_isa_version'):
        txt = unparse(v_) if v_ is not None else ''
        ok = txt in ("'0.0.1'", 'self._isa_version.strip()') or (txt.startswith("str(self._config['general']['identifier'].get('version'") and txt.endswith('.strip()'))
        ctx.check(ok, 'isa-version:as-written', init.site(st_), 'the ISA version is kept as written (only surrounding blanks are removed)', txt)
    res = resolver(ctx, init, inline=False)
    h = [i for i in walk_no_nested(init.node) if isinstance(i, ast.If) and body_only_aborts(i.body) and unparse(i.test) == 'version_match is None']
    ok = len(h) == 1
    if ok:
        d = reaching_def(ctx, init, 'version_match', h[0])
        ok = isinstance(d, ast.Call) and unparse(d.func) == 're.match' and 'version.VERSION_PATTERN' in unparse(d.args[0]) and unparse(d.args[1]) == 'self._isa_version' \
            and unparse(d.args[0]).startswith("'^") and unparse(d.args[0]).rstrip().endswith("$'")
    ctx.check(ok, 'isa-version:validated', init.site(h[0]) if h else init.site(), 'an ISA version that is not wholly a semantic version is rejected', '')


def c19_namespace(ctx):
    """Macro names are distinct from instruction names (C10.4), compared in the spelling the set is keyed by."""
    from rules.c10 import c10_4
    c10_4(ctx)


def c19_keywords(ctx):
    """'Named like an assembler keyword' is decided against the keyword table: that table holds every directive name and every
    expression function the lexer recognises (LSB, BYTE0..BYTE9) - C06.3, re-evaluated here (a register `BYTE9` must be rejected)."""
    from rules.c06 import c06_3
    c06_3(ctx)


RULES = [c19_1, c19_validated, c19_2, c19_3, c19_4, c19_namespace, c19_keywords]

_M = 'assembler/model/__init__.py'
_IS = 'assembler/model/instruction_set.py'
_RL = 'assembler/line_object/preprocessor_line/required_language.py'
MUTANTS = [
    V('c19-count0-not-validated', 'assembler/model/instruction.py', "        if 'operands' in self._variant_config:\n            try:", "        if 'operands' in self._variant_config and self._variant_config['operands'].get('count', 1) != 0:\n            try:", 'C19.5'),
    V('c19-version-base-only', 'assembler/model/__init__.py', "        self._isa_version = self._isa_version.strip()", "        self._isa_version = version.parse(self._isa_version).base_version", 'C19.4'),
    V('c19-register-keyword-ok', _M, "            if reg in ASSEMBLER_KEYWORD_SET:\n", "            if False:\n", 'C19.1'),
    V('c19-count-gt', 'assembler/model/operand_parser.py', "self.operand_count != self._operand_sets_model.operand_count:", "self.operand_count > self._operand_sets_model.operand_count:", 'C19.1'),
    V('c19-macro-collision', _IS, "                if mnemonic in self:\n                    sys.exit(f'ERROR - Macro \"{mnemonic}\" has same mnemonic as a configured instruction.')\n", "", 'C19.1'),
    V('c19-macro-raw-case', _IS, "            for mnemonic, macro_config_list in self._macros_config.items():\n                mnemonic = mnemonic.lower()\n", "            for mnemonic, macro_config_list in self._macros_config.items():\n", 'C19.1'),
    V('c19-version-strings', _M, "            if version.parse(str(required_version)) > version.parse(BESPOKEASM_VERSION_STR):", "            if str(required_version) > BESPOKEASM_VERSION_STR:", 'C19.2'),
    V('c19-version-release-tuple', _M, "            if version.parse(str(required_version)) > version.parse(BESPOKEASM_VERSION_STR):", "            if version.parse(str(required_version)).release > version.parse(BESPOKEASM_VERSION_STR).release:", 'C19.2'),
    V('c19-version-gate-ge', _M, "            if version.parse(str(required_version)) > version.parse(BESPOKEASM_VERSION_STR):", "            if version.parse(str(required_version)) >= version.parse(BESPOKEASM_VERSION_STR):", 'C19.2'),
    V('c19-require-ge-is-gt', _RL, "            'check': operator.ge,", "            'check': operator.gt,", 'C19.3'),
    V('c19-require-name-elif', _RL, '''            if self._language != isa_model.isa_name:
                sys.exit(
                    f'ERROR: {line_id} - language "{self._language}" is required but ISA '
                    f'configuration file declares language "{isa_model.isa_name}"'
                )
            if len(require_match.groups()) >= 3''', '''            if require_match.group(2) is None and self._language != isa_model.isa_name:
                sys.exit(
                    f'ERROR: {line_id} - language "{self._language}" is required but ISA '
                    f'configuration file declares language "{isa_model.isa_name}"'
                )
            if len(require_match.groups()) >= 3''', 'C19.3'),
    V('c19-require-needs-blank', _RL, "(?:\\s*(==|>=|<=|>|<)", "(?:\\s+(==|>=|<=|>|<)", 'C19.3'),
    V('c19-require-unmatched-ignored', _RL, "        if require_match is None:\n            sys.exit(f'ERROR: {line_id} - the language requirement \"{instruction}\" is not understood')\n        else:\n", "        if require_match is not None:\n", 'C19.3'),
    V('c19-require-name-no-dot', _RL, '([\\w\\-\\_\\.]*)', '([\\w\\-\\_]*)', 'C19.3'),
    V('c19-name-first-dot', _M, "config_file_name = os.path.splitext(os.path.basename(config_file_path))[0]", "config_file_name = os.path.basename(config_file_path).split('.')[0]", 'C19.3'),
    V('c19-name-from-description', _M, "self._config['general']['identifier'].get('name', config_file_name)", "self._config['general']['identifier'].get('name', self._config.get('description', config_file_name))", 'C19.3'),
    V('c19-require-swapped', _RL, "                                model_version_obj, self._version_obj\n", "                                self._version_obj, model_version_obj\n", 'C19.3'),
    V('c19-opset-missing-ok', 'assembler/model/operand_parser.py', '''            else:
                sys.exit(
                    f'ERROR: instuction set configuration file makes reference to unknow operand set "{k}"'
                    f' in definition of instruction "{instruction}"'
                )''', '''            else:
                pass''', 'C19.1'),
    V('c19-range-inverted-ok', 'assembler/model/operand/types/numeric_bytecode.py', "        if self.bytecode_max < self.bytecode_min:", "        if self.bytecode_max < 0:", 'C19.1'),
    V('c19-unknown-type-numeric', 'assembler/model/operand/factory.py', "            sys.exit(f'ERROR - Operand {operand_id} was configured with unknown type \"{type_str}\"')", "            return numeric_expression.NumericExpressionOperand(operand_id, arg_config_dict, default_endian)", 'C19.1'),
    V('c19-isa-version-prefix', _M, "                r'^\\s*' + version.VERSION_PATTERN + r'\\s*$',", "                r'^\\s*' + version.VERSION_PATTERN,", 'C19.4'),
    V('c19-zone-width', 'assembler/memory_zone/__init__.py', "if end > ((2**address_bits)-1):", "if end > (1 << address_bits):", 'C05.3'),
    V('c19-origin-global', _M, "                if self.default_origin < zone['start']:", "                if self.default_origin < 0:", 'C19.1'),
]
TWINS = [
    V('c19-t-name-pathlib', _M, "config_file_name = os.path.splitext(os.path.basename(config_file_path))[0]", "import pathlib\n        config_file_name = pathlib.Path(config_file_path).stem", None),
    V('c19-t-require-elif', _RL, "        if require_match is None:\n            sys.exit(f'ERROR: {line_id} - the language requirement \"{instruction}\" is not understood')\n        else:\n", "        if require_match is None:\n            sys.exit(f'ERROR: {line_id} - the language requirement \"{instruction}\" is not understood')\n        if True:\n", None),
]
