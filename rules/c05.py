"""C05 - memory zones confine and sequence the code assigned to them."""
import ast

from engine.index import AnalysisError
from engine.helpers import (resolver, facts_at, guarded, lit_cmp, describe_facts, self_attr_stores, attr_writers,
                            calls_to, unparse, body_only_aborts, isnone_side, walk_no_nested, deref)
from engine.lin import to_lin, clause_implies, facts_cnf
from engine.types import CallGraph, bind_args
from rules.shared import IncludeRegion

MZ = 'bespokeasm.assembler.memory_zone.MemoryZone'
MGR = 'bespokeasm.assembler.memory_zone.manager.MemoryZoneManager'

EXPLANATION = (
    'Static rules over the source of /repo (nothing executed). Decided: C05.1 the zone cursor setter stores only a '
    'value its dominating guards bound to [start, end+1]; C05.2 every write of the cursor is the constructor, the '
    'guarded setter, and every setter call site passes either the default origin or `line.address + line.byte_size` '
    'to that line\'s own zone; C05.3 constructor/creation guards (address width, inversion, duplicate name, '
    'containment in GLOBAL) dominate the insertion and their exceptions are turned into exits; C05.4 `.org` value '
    'provenance (absolute vs zone-relative, GLOBAL bounds) and unknown zone rejection; C05.5 per-file zone state '
    '(each file starts in GLOBAL, only zone directives change it, include leaves it alone); C05.6 a line\'s zone is the zone current at that line: handed down unchanged at every call edge into a line factory or constructor, every statement factory is called directly, and no lambda, nested function or functools.partial captures the variable that zone directives re-assign. Not decided: nothing '
    'numeric beyond the linear guards; the evaluation of address expressions themselves (C07).'
)
ASSUMPTIONS = [
    'Python ast as parser; own call resolution from annotations (resolution statistics in coverage.call_graph)',
    'guards are compared in canonical linear form over named atoms; property reads with trivial getters are '
    'identified with their backing field',
    'an uncaught raise ends the run with a non-zero exit (counts as rejection)',
]


def c05_1(ctx):
    ctx.rule('C05.1', 'zone cursor setter: stored value bounded by start <= v <= end + 1', 2)
    setter = ctx.repo.func(MZ + '.current_address#setter')
    p = setter.call_params[0].arg
    stores = self_attr_stores(setter.node, '_current_address')
    if not stores:
        raise AnalysisError('setter no longer stores self._current_address')
    res = resolver(ctx, setter)
    for st, tgt, val in stores:
        if not (isinstance(val, ast.Name) and val.id == p):
            ctx.refute('setter:stored-value', setter.site(st), 'the setter stores its argument unchanged',
                       f'stores {unparse(val)}')
        cl = facts_at(ctx, setter, st, res)
        for key, req in (('setter:lower-bound', f'{p} >= self.start'), ('setter:upper-bound', f'{p} <= self.end + 1')):
            ok = clause_implies(cl, lit_cmp(ctx, setter, req, res))
            ctx.check(ok, key, setter.site(st), f'store dominated by an abort unless {req}',
                      f'facts at the store: {describe_facts(cl)}', f'facts: {describe_facts(cl)}')


def c05_2(ctx):
    ctx.rule('C05.2', 'who writes the zone cursor; every setter call site advances the owning zone', 4)
    mz = ctx.repo.cls(MZ)
    allowed = {MZ + '.__init__', MZ + '.current_address#setter'}
    for fn, node in attr_writers(ctx, '_current_address'):
        k = CallGraph.key(fn)
        ctx.check(k in allowed, f'writer:{ctx.short(k)}', fn.site(node),
                  '_current_address is written only by MemoryZone.__init__ and the guarded setter',
                  f'{ctx.short(k)} writes _current_address directly, bypassing the bounds check')
    init = ctx.repo.func(MZ + '.__init__')
    for st, tgt, val in self_attr_stores(init.node, '_current_address'):
        ctx.check(isinstance(val, ast.Name) and val.id == 'start', 'init:cursor=start', init.site(st),
                  'a new zone\'s cursor starts at the zone start', f'initialised to {unparse(val)}')
    setter = ctx.repo.func(MZ + '.current_address#setter')
    sites = ctx.cg.callers(setter)
    if not sites:
        raise AnalysisError('no call site of the cursor setter found')
    for e in sites:
        fn = e.caller
        st = None
        for n in ast.walk(fn.node):
            if isinstance(n, (ast.Assign, ast.AugAssign)) and any(t is e.node for t in (n.targets if isinstance(n, ast.Assign) else [n.target])):
                st = n
        if st is None or isinstance(st, ast.AugAssign):
            ctx.err(f'site:{ctx.short(fn)}', fn.site(e.node), 'setter call is a plain assignment', 'unrecognised store form')
            continue
        recv, val = e.node.value, st.value
        if CallGraph.key(fn) == MGR + '.__init__':
            ok = isinstance(val, ast.Name) and val.id == 'default_origin' and 'GLOBAL_ZONE_NAME' in unparse(recv)
            ctx.check(ok, 'site:manager-init', fn.site(st), 'GLOBAL cursor initialised with the default origin',
                      f'{unparse(st)}')
            continue
        # engine form: <L>.memory_zone.current_address = <L>.address + <L>.byte_size
        res = resolver(ctx, fn, inline=False)
        ok = False
        detail = unparse(st)
        if isinstance(recv, ast.Attribute) and recv.attr == 'memory_zone':
            L = unparse(recv.value)
            want = to_lin(ast.parse(f'{L}.address + {L}.byte_size', mode='eval').body, res)
            got = to_lin(val, res)
            ok = want.key() == got.key()
        ctx.check(ok, f'site:{ctx.short(fn)}', fn.site(st),
                  'cursor of a line\'s own zone is advanced to that line\'s address + byte_size', detail)


def _exit_facts(ctx, fn, res):
    g = ctx.cfg(fn)
    return facts_cnf(g.branch_facts(g.exit), res)


def c05_3(ctx):
    ctx.rule('C05.3', 'zone construction / creation guards dominate the effect', 7)
    init = ctx.repo.func(MZ + '.__init__')
    res = resolver(ctx, init)
    cl = _exit_facts(ctx, init, res)
    for key, req in (('init:address-width', 'end <= 2**address_bits - 1'), ('init:not-inverted', 'start <= end'), ('init:not-below-zero', 'start >= 0')):
        ctx.check(clause_implies(cl, lit_cmp(ctx, init, req, res)), key, init.site(),
                  f'constructor returns normally only if {req}', f'facts at normal return: {describe_facts(cl)}')
    cz = ctx.repo.func(MGR + '.create_zone')
    res = resolver(ctx, cz, inline=False)
    inserts = [n for n in ast.walk(cz.node) if isinstance(n, ast.Assign) and any(
        isinstance(t, ast.Subscript) and unparse(t.value) == 'self._zones' for t in n.targets)]
    if not inserts:
        raise AnalysisError('create_zone no longer inserts into self._zones')
    for st in inserts:
        cl = facts_at(ctx, cz, st, res)
        for key, req in (('create:duplicate', 'name not in self._zones'),
                         ('create:start-in-global', 'start >= self.global_zone.start'),
                         ('create:end-in-global', 'end <= self.global_zone.end')):
            ctx.check(clause_implies(cl, lit_cmp(ctx, cz, req, res)), key, cz.site(st),
                      f'insertion dominated by an abort unless {req}', f'facts: {describe_facts(cl)}')
        # the inserted zone is constructed through MemoryZone(...) with the caller's bounds
        val = st.value
        d = val
        if isinstance(val, ast.Name):
            defs = [n.value for n in ast.walk(cz.node) if isinstance(n, ast.Assign) and any(
                isinstance(t, ast.Name) and t.id == val.id for t in n.targets)]
            d = defs[0] if len(defs) == 1 else None
        ok = isinstance(d, ast.Call) and unparse(d.func) == 'MemoryZone' and \
            [unparse(a) for a in d.args[:4]] == ['address_bits', 'start', 'end', 'name']
        ctx.check(ok, 'create:constructed', cz.site(st), 'inserted zone is MemoryZone(address_bits, start, end, name)',
                  f'inserted value: {unparse(d) if d is not None else unparse(val)}')
    # exceptions of create_zone become exits in the directive
    cm = ctx.repo.func('bespokeasm.assembler.line_object.preprocessor_line.create_memzone.CreateMemzoneLine.__init__')
    sites = calls_to(ctx, cm, {MGR + '.create_zone'})
    if not sites:
        raise AnalysisError('CreateMemzoneLine no longer calls create_zone')
    for node, _ in sites:
        tries = [t for t in ast.walk(cm.node) if isinstance(t, ast.Try) and any(node is s for b in t.body for s in ast.walk(b))]
        caught = {}
        for t in tries:
            for h in t.handlers:
                names = [unparse(x) for x in (h.type.elts if isinstance(h.type, ast.Tuple) else [h.type])] if h.type else ['*']
                for nm in names:
                    caught[nm] = body_only_aborts(h.body)
        for exc in ('KeyError', 'ValueError'):
            ok = caught.get(exc) or caught.get('Exception') or caught.get('*')
            if exc not in caught and 'Exception' not in caught and '*' not in caught:
                # uncaught: propagates as a traceback = rejection, acceptable
                ctx.ok(f'create:{exc}->exit', cm.site(node), f'{exc} from create_zone ends the run', 'uncaught (propagates)')
            else:
                ctx.check(ok, f'create:{exc}->exit', cm.site(node), f'{exc} from create_zone is turned into an exit',
                          'handler swallows the exception')


def c05_4(ctx):
    ctx.rule('C05.4', '.org / .memzone provenance: absolute vs zone relative, unknown zone rejected', 6)
    addr = ctx.repo.func('bespokeasm.assembler.line_object.directive_line.address.AddressOrgLine.address')
    res = resolver(ctx, addr, inline=True)
    rets = [n for n in walk_no_nested(addr.node) if isinstance(n, ast.Return) and n.value is not None]
    if not rets:
        raise AnalysisError('AddressOrgLine.address has no return')
    # definitions of the returned variable, each with the branch facts under which it is made
    for r in rets:
        if not isinstance(r.value, ast.Name):
            ctx.err('org:return', addr.site(r), 'returns a local holding the origin', f'returns {unparse(r.value)}')
            continue
        v = r.value.id
        defs = [n for n in walk_no_nested(addr.node) if isinstance(n, ast.Assign) and any(
            isinstance(t, ast.Name) and t.id == v for t in n.targets)]
        offs = 'self._address_expr.get_value(self.label_scope, self.line_id)'
        seen = {}
        for d in defs:
            cl = facts_at(ctx, addr, d, res)
            lin = to_lin(d.value, res)
            none_lit = ('isnone', 'self._parsed_memzone_name', True)
            notnone_lit = ('isnone', 'self._parsed_memzone_name', False)
            which = 'bare' if frozenset({none_lit}) in cl else ('zone' if frozenset({notnone_lit}) in cl else 'other')
            seen[which] = (lin, d)
        want_bare = to_lin(ast.parse(offs, mode='eval').body, res)
        want_zone = to_lin(ast.parse(f'self.memory_zone.start + {offs}', mode='eval').body, res)
        if 'bare' in seen and 'zone' in seen and 'other' not in seen:
            ctx.check(seen['bare'][0].key() == want_bare.key(), 'org:bare-absolute', addr.site(seen['bare'][1]),
                      'a bare .org is the absolute value of its expression', f'value is {seen["bare"][0]}')
            ctx.check(seen['zone'][0].key() == want_zone.key(), 'org:zone-relative', addr.site(seen['zone'][1]),
                      'a .org with a zone name is zone.start + offset', f'value is {seen["zone"][0]}')
        else:
            conds = [describe_facts(facts_at(ctx, addr, d, res)) for d in defs]
            if any('global_zone' in c or 'GLOBAL' in c for c in conds) and not any('_parsed_memzone_name' in c for c in conds):
                ctx.refute('org:zone-relative', addr.site(r),
                           'absolute vs zone-relative is decided by whether a zone name was written on the .org line',
                           f'decided by {conds[0]}: `.org N "GLOBAL"` (a written zone name) is treated as absolute although it is '
                           'relative to the start of a redefined GLOBAL zone')
            else:
                ctx.err('org:value-shape', addr.site(r), 'origin defined once per branch of `parsed zone name is None`',
                        f'definitions found under: {conds}')
        cl = facts_at(ctx, addr, r, res)
        for key, req in (('org:>=global.start', f'{v} >= self.memzone_manager.global_zone.start'),
                         ('org:<=global.end', f'{v} <= self.memzone_manager.global_zone.end')):
            r2 = resolver(ctx, addr, inline=False)
            cl2 = facts_at(ctx, addr, r, r2)
            ctx.check(clause_implies(cl2, lit_cmp(ctx, addr, req, r2)), key, addr.site(r),
                      f'origin returned only if {req}', f'facts: {describe_facts(cl2)}')
    # SetMemoryZoneLine: no name -> GLOBAL; unknown -> exit; resolved zone handed to the base class
    sm = ctx.repo.func('bespokeasm.assembler.line_object.directive_line.memzone.SetMemoryZoneLine.__init__')
    res = resolver(ctx, sm, inline=True)
    sup = [c for c in ast.walk(sm.node) if isinstance(c, ast.Call) and isinstance(c.func, ast.Attribute)
           and c.func.attr == '__init__' and isinstance(c.func.value, ast.Call) and unparse(c.func.value.func) == 'super']
    if len(sup) != 1:
        raise AnalysisError('SetMemoryZoneLine.__init__: expected one super().__init__ call')
    call = sup[0]
    base_init = ctx.repo.func('bespokeasm.assembler.line_object.LineObject.__init__')
    mz_arg = bind_args(call, base_init).get('memzone')
    zdef = res.definition(mz_arg.id) if isinstance(mz_arg, ast.Name) else mz_arg
    ok = isinstance(zdef, ast.Call) and isinstance(zdef.func, ast.Attribute) and zdef.func.attr == 'zone' \
        and unparse(zdef.func.value) == 'memzone_manager' and len(zdef.args) == 1 and unparse(zdef.args[0]) == 'self._name'
    ctx.check(ok, 'memzone:lookup', sm.site(call), 'the line\'s zone is memzone_manager.zone(self._name)',
              f'zone argument is {unparse(zdef) if zdef is not None else unparse(mz_arg)}')
    cl = facts_at(ctx, sm, call, res)
    zn = unparse(mz_arg)
    ctx.check(clause_implies(cl, ('isnone', unparse(zdef) if isinstance(mz_arg, ast.Name) and zdef is not None else zn, False)),
              'memzone:unknown->exit', sm.site(call),
              'construction continues only if the zone exists (unknown name -> exit)', f'facts: {describe_facts(cl)}')
    # name None -> GLOBAL
    stores = self_attr_stores(sm.node, '_name')
    got = {}
    r0 = resolver(ctx, sm, inline=False)
    for st, tgt, val in stores:
        cl = facts_at(ctx, sm, st, r0)
        if frozenset({('isnone', 'name_str', True)}) in cl:
            got['none'] = (st, unparse(val))
        elif frozenset({('isnone', 'name_str', False)}) in cl:
            got['given'] = (st, unparse(val))
    ok = got.get('none', (None, ''))[1] == 'GLOBAL_ZONE_NAME' and got.get('given', (None, ''))[1] == 'name_str'
    ctx.check(ok, 'memzone:bare->GLOBAL', sm.site(), 'no zone name selects GLOBAL, a given name selects that zone',
              f'stores of _name: { {k: v[1] for k, v in got.items()} }')
    # the .org factory hands the optional zone name (group 2) to AddressOrgLine
    fac = ctx.repo.func('bespokeasm.assembler.line_object.directive_line.factory.DirectiveLine.factory')
    org_init = ctx.repo.func('bespokeasm.assembler.line_object.directive_line.address.AddressOrgLine.__init__')
    sites = [c for c in ast.walk(fac.node) if isinstance(c, ast.Call) and unparse(c.func) == 'AddressOrgLine']
    if not sites:
        raise AnalysisError('DirectiveLine.factory no longer constructs AddressOrgLine')
    rf = resolver(ctx, fac, inline=True)
    for c in sites:
        b = bind_args(c, org_init)
        def grp(e):
            d = deref(ctx, fac, e, c)
            if isinstance(d, ast.Call) and isinstance(d.func, ast.Attribute) and d.func.attr == 'group' and d.args:
                return ctx.fold.try_fold(d.args[0], fac.module)
            return None
        ok = grp(b.get('address_expression')) == 1 and grp(b.get('memzone_name')) == 2 and \
            unparse(b.get('memzone_manager')) == 'memzone_manager'
        ctx.check(ok, 'org:factory-args', fac.site(c),
                  'AddressOrgLine receives the expression (group 1) and the optional zone name (group 2)',
                  f'{unparse(c)}')


def c05_5(ctx):
    ctx.rule('C05.5', 'per-file zone state: each file starts in GLOBAL; only zone directives change it', 3)
    fn = ctx.repo.func('bespokeasm.assembler.assembly_file.AssemblyFile.load_line_objects')
    assigns = [n for n in walk_no_nested(fn.node) if isinstance(n, ast.Assign) and any(
        isinstance(t, ast.Name) and t.id == 'current_memzone' for t in n.targets)]
    if not assigns:
        ctx.refute('file:start-in-GLOBAL', fn.site(), 'the selected zone is per-file state: a local of the per-file call, initialised to GLOBAL',
                   'load_line_objects keeps no local zone variable initialised from memzone_manager.global_zone: the selection lives in shared state, so an '
                   'included file does not start in GLOBAL and the includer does not resume in its own zone')
        return
    g = ctx.cfg(fn)
    loops = [n for n in walk_no_nested(fn.node) if isinstance(n, ast.For)]
    inits = []
    res = resolver(ctx, fn, inline=False)
    for a in assigns:
        in_loop = any(any(sub is a for sub in ast.walk(l)) for l in loops)
        if not in_loop:
            inits.append(a)
            ctx.check(unparse(a.value) == 'memzone_manager.global_zone', 'file:start-in-GLOBAL', fn.site(a),
                      'every file (including an included one) starts in the GLOBAL zone', f'{unparse(a)}')
        else:
            cl = facts_at(ctx, fn, a, res)
            is_zone_line = any(l[0] == 'isinstance' and l[2] == 'SetMemoryZoneLine' and l[3] for c in cl if len(c) == 1 for l in c)
            compil = any(l == ('truthy', 'lobj.compilable', True) or l == ('truthy', 'lobj._compilable', True)
                         for c in cl if len(c) == 1 for l in c)
            ok = is_zone_line and compil and unparse(a.value) == 'lobj.memory_zone'
            ctx.check(ok, 'file:zone-change-only-on-directive', fn.site(a),
                      'the current zone changes only on a compilable .org/.memzone line, to that line\'s zone',
                      f'{unparse(a)} under {describe_facts(cl)}')
    in_loop_assigns = [a for a in assigns if a not in inits]
    ctx.check(bool(in_loop_assigns), 'file:zone-follows-directive', fn.site(),
              'a compilable .org/.memzone line switches the file\'s current zone', 'no assignment of current_memzone in the line loop')
    if not inits:
        ctx.refute('file:start-in-GLOBAL', fn.site(), 'current_memzone initialised inside the per-file call',
                   'no initialisation before the line loop')
    # the include branch does not touch the zone: no assignment between the include call and its `continue`
    inc = calls_to(ctx, fn, {'bespokeasm.assembler.assembly_file.AssemblyFile._handle_include_file'})
    if not inc:
        raise AnalysisError('load_line_objects no longer calls _handle_include_file')
    for node, _ in inc:
        reg = IncludeRegion(ctx, fn, node)
        body_assigns = reg.assigned()
        reparsed = reg.calls(lambda c: unparse(c.func).endswith('LineOjectFactory.parse_line'))
        ends_continue = not reparsed and not reg.leaves_loop
        ctx.check('current_memzone' not in body_assigns and ends_continue, 'file:include-keeps-zone', fn.site(node),
                  'the include branch neither reads back nor changes the includer\'s zone and skips to the next line',
                  f'assignments in include branch: {body_assigns}, goes straight to the next line: {ends_continue}')
    # zone passed to the line factory is the current one
    pl = [c for c in ast.walk(fn.node) if isinstance(c, ast.Call) and unparse(c.func).endswith('LineOjectFactory.parse_line')]
    if not pl:
        raise AnalysisError('load_line_objects no longer calls LineOjectFactory.parse_line')
    target = ctx.repo.func('bespokeasm.assembler.line_object.factory.LineOjectFactory.parse_line')
    for c in pl:
        b = bind_args(c, target)
        ctx.check(unparse(b.get('current_memzone')) == 'current_memzone', 'file:factory-gets-current-zone', fn.site(c),
                  'lines are created in the file\'s current zone', f'current_memzone argument: {unparse(b.get("current_memzone"))}')


def zone_provenance(ctx):
    """Every line object is created in the zone current at its line: the zone is handed unchanged from the file loop
    through the line factories to the LineObject constructor (shared by C02 and C05)."""
    ctx.rule('C05.6', 'a line\'s zone is the zone current at that line, handed down unchanged', 12)
    lo = ctx.repo.cls('bespokeasm.assembler.line_object.LineObject')
    line_classes = {c.qualname for c in [lo] + lo.all_subclasses()}
    n = 0
    for fn in ctx.repo.all_functions():
        for e in ctx.cg.callees(fn):
            if not isinstance(e.node, ast.Call):
                continue
            cal = e.callee
            zp = next((p_.arg for p_ in cal.call_params if p_.arg in ('current_memzone', 'memzone')), None)
            if zp is None:
                continue
            is_line_ctor = cal.cls is not None and cal.cls.qualname in line_classes and cal.name == '__init__'
            is_factory = cal.name in ('factory', 'parse_line') and cal.module.name.startswith('bespokeasm.assembler.line_object')
            if not (is_line_ctor or is_factory):
                continue
            a = bind_args(e.node, cal).get(zp)
            got = unparse(a) if a is not None else '<missing>'
            n += 1
            key = f'zone-of-line:{ctx.short(fn).split("assembler.")[-1]}->{cal.cls.name if cal.cls else cal.name}.{cal.name}'
            if fn.qualname.endswith('SetMemoryZoneLine.__init__'):
                ctx.ok(key, fn.site(e.node), 'a zone directive lives in the zone it selects (checked by C05.4)', got)
                continue
            if fn.qualname.endswith('Assembler.assemble_bytecode'):
                got_ = unparse(deref(ctx, fn, a, e.node)) if a is not None else got
                ctx.check('memzone_manager.global_zone' in (got, got_), key, fn.site(e.node), 'predefined data blocks live in GLOBAL', got)
                continue
            ctx.check(got in ('current_memzone', 'memzone'), key, fn.site(e.node),
                      'the zone handed down is the caller\'s current zone', f'{zp}={got}')
    if n < 12:
        ctx.err('zone-of-line:sites', '-', 'at least 12 hand-down sites', f'{n}')
    # each statement factory is reached by an explicit call that hands the zone down (an indirect call - functools.partial, a
    # table of bound callables - is not judged by the rule above, so it must not be the only way to a factory)
    seen_callees = {o.key.split('->')[-1] for o in ctx.obligations if o.key.startswith('zone-of-line:') and '->' in o.key and o.status == 'pass'}
    for want in ('LabelLine.factory', 'DirectiveLine.factory', 'EmbeddedString.factory', 'InstructionLine.factory', 'LineOjectFactory.parse_line',
                 'PreprocessorLineFactory.parse_line', 'DataLine.factory'):
        ctx.check(want in seen_callees, f'zone-of-line:called-directly:{want}', '-',
                  f'{want} is called directly with the caller\'s current zone', 'no direct call site that hands the current zone down')
    # the current zone is a variable that zone directives re-assign while a line (or file) is read: no closure, lambda or
    # functools.partial captures it (the captured value would be the zone at capture time, not at the statement)
    for fn in ctx.repo.all_functions():
        rebinds = [n_ for n_ in ast.walk(fn.node) if isinstance(n_, ast.Assign) and any(isinstance(t, ast.Name) and t.id == 'current_memzone' for t in n_.targets)]
        if not rebinds:
            continue
        for n_ in ast.walk(fn.node):
            cap = None
            if isinstance(n_, (ast.Lambda, ast.FunctionDef, ast.AsyncFunctionDef)) and n_ is not fn.node:
                cap = n_
            elif isinstance(n_, ast.Call) and unparse(n_.func) in ('partial', 'functools.partial', 'partialmethod', 'functools.partialmethod'):
                cap = n_
            if cap is not None and any(isinstance(x, ast.Name) and x.id == 'current_memzone' for x in ast.walk(cap)):
                ctx.refute(f'zone-of-line:captured:{ctx.short(fn)}', fn.site(cap), 'the current zone is read where the statement is created, never captured earlier',
                           f'{unparse(cap)[:100]} captures current_memzone, which {ctx.short(fn)} re-assigns at zone directives')
    init = ctx.repo.func('bespokeasm.assembler.line_object.LineObject.__init__')
    st = self_attr_stores(init.node, '_memzone')
    ctx.check(len(st) == 1 and unparse(st[0][2]) == 'memzone', 'zone-of-line:stored', init.site(), 'a line keeps the zone it was created in', '; '.join(unparse(x[0]) for x in st))
    mz = ctx.repo.func('bespokeasm.assembler.line_object.LineObject.memory_zone')
    from engine.helpers import returns as _ret
    rr = _ret(mz)
    ctx.check(len(rr) == 1 and unparse(rr[0].value) == 'self._memzone', 'zone-of-line:read', mz.site(), 'line.memory_zone is that zone', '; '.join(unparse(r) for r in rr))
    for f in lo.implementations('memory_zone'):
        ctx.check(f.cls.qualname == lo.qualname, f'zone-of-line:override:{ctx.short(f)}', f.site(), 'no subclass overrides memory_zone', ctx.short(f))


def c05_predefined(ctx):
    """Zones declared in the ISA definition confine code only if each is created with its own bounds."""
    from rules.shared import cfg_accessors, cfg_zones
    cfg_accessors(ctx, only=('predefined_memory_zones',))
    cfg_zones(ctx)
    from rules.shared import exact_lookup
    ctx.rule('C05.7', 'a zone is selected by exactly the name written', 1)
    exact_lookup(ctx, 'bespokeasm.assembler.memory_zone.manager.MemoryZoneManager.zone', '_zones', 'a memory zone', 'lookup:zone-by-exact-name')


def c05_state(ctx):
    """Per-statement / per-lookup properties presuppose that nothing is remembered between statements beyond the reviewed state."""
    from rules.shared import state_discipline
    state_discipline(ctx, ('bespokeasm.assembler.memory_zone', 'bespokeasm.assembler.line_object.directive_line', 'bespokeasm.assembler.assembly_file', 'bespokeasm.assembler.line_object.preprocessor_line.create_memzone'))


def c05_same_line(ctx):
    """Code assigned to a zone by a directive on the same line belongs to that zone (C18.3's same-line rule)."""
    ctx.rule('C05.8', 'a zone directive applies to the statements after it on its own line', 1)
    from rules.c18 import same_line_zone
    same_line_zone(ctx)


def c05_sizes(ctx):
    """The zone's end is enforced against what a line *reserves*: a line that emits more than it reserves puts bytes behind the check (C02.5)."""
    from rules.c02 import c02_5
    c02_5(ctx)


RULES = [c05_predefined, c05_1, c05_2, c05_3, c05_4, c05_5, zone_provenance, c05_state, c05_same_line, c05_sizes]

# ---------------------------------------------------------------------- self-test variants
from engine.selftest import V  # noqa: E402

_MZ = 'assembler/memory_zone/__init__.py'
_MG = 'assembler/memory_zone/manager.py'
_AF = 'assembler/assembly_file.py'
_AD = 'assembler/line_object/directive_line/address.py'
MUTANTS = [
    V('c05-zone-lookup-folds-case', 'assembler/memory_zone/manager.py', "        return self._zones.get(name, None)", "        if name.upper() == GLOBAL_ZONE_NAME:\n            return self.global_zone\n        return self._zones.get(name, None)", 'C05.7'),
    V('c05-predefined-zone-end-exclusive', 'assembler/memory_zone/manager.py', "mz['name']: MemoryZone(address_bits, mz['start'], mz['end'], mz['name'])", "mz['name']: MemoryZone(address_bits, mz['start'], mz['end'] - 1, mz['name'])", 'CFG.4'),
    V('c05-predefined-zone-skips-global', 'assembler/memory_zone/manager.py', "            for mz in predefined_zones\n", "            for mz in predefined_zones if mz['name'] != GLOBAL_ZONE_NAME\n", 'CFG.4'),
    V('c05-upper+2', _MZ, 'if value > self.end + 1:', 'if value > self.end + 2:', 'C05.1'),
    V('c05-upper-strict', _MZ, 'if value > self.end + 1:', 'if value >= self.end + 1:', 'C05.1'),
    V('c05-lower-dropped', _MZ, 'if value < self.start:', 'if False:', 'C05.1'),
    V('c05-lower-vs-end', _MZ, 'if value < self.start:', 'if value < self.end:', 'C05.1'),
    V('c05-store-other', _MZ, '        self._current_address = value\n', '        self._current_address = value + 1\n', 'C05.1'),
    V('c05-init-width', _MZ, 'if end > ((2**address_bits)-1):', 'if end > (2**address_bits):', 'C05.3'),
    V('c05-init-inverted', _MZ, '        if start > end:\n            raise ValueError(f\'Start value', '        if start > end + 1:\n            raise ValueError(f\'Start value', 'C05.3'),
    V('c05-dup-name', _MG, '        if name in self._zones:\n            raise KeyError', '        if False:\n            raise KeyError', 'C05.3'),
    V('c05-end-global', _MG, 'if end > self.global_zone.end:', 'if end > self.global_zone.end + 1:', 'C05.3'),
    V('c05-start-global', _MG, 'if start < self.global_zone.start:', 'if start < 0:', 'C05.3'),
    V('c05-wrong-zone-advanced', 'assembler/engine.py', 'lobj.memory_zone.current_address = lobj.address + lobj.byte_size',
      'memzone_manager.global_zone.current_address = lobj.address + lobj.byte_size', 'C05.2'),
    V('c05-advance-no-size', 'assembler/engine.py', 'lobj.memory_zone.current_address = lobj.address + lobj.byte_size',
      'lobj.memory_zone.current_address = lobj.address + 1', 'C05.2'),
    V('c05-direct-write', 'assembler/engine.py', 'lobj.memory_zone.current_address = lobj.address + lobj.byte_size',
      'lobj.memory_zone._current_address = lobj.address + lobj.byte_size', 'C05.2'),
    V('c05-org-relative-lost', _AD, 'value = self.memory_zone.start + offset_value', 'value = offset_value', 'C05.4'),
    V('c05-org-bare-relative', _AD, '            value = offset_value\n', '            value = self.memory_zone.start + offset_value\n', 'C05.4'),
    V('c05-org-end-check', _AD, 'if value > self.memzone_manager.global_zone.end:', 'if value > self.memzone_manager.global_zone.end + 1:', 'C05.4'),
    V('c05-bare-org-keeps-zone', 'assembler/line_object/directive_line/memzone.py', 'self._name = GLOBAL_ZONE_NAME',
      'self._name = name_str', 'C05.4'),
    V('c05-unknown-zone', 'assembler/line_object/directive_line/memzone.py', '        if memzone is None:\n', '        if False:\n', 'C05.4'),
    V('c05-org-groups-swapped', 'assembler/line_object/directive_line/factory.py', 'memzone_name = line_match.group(2)',
      'memzone_name = None', 'C05.4'),
    V('c05-zone-outside-call', _AF, 'current_memzone = memzone_manager.global_zone', 'current_memzone = self._start_zone(memzone_manager)', 'C05.5'),
    V('c05-zone-not-restored', _AF, '                                    current_memzone = lobj.memory_zone\n', '                                    pass\n', 'C05.5'),
    V('c05-include-leaks-zone', _AF, '                            line_objects.extend(additional_line_objects)\n',
      '                            line_objects.extend(additional_line_objects)\n                            current_memzone = memzone_manager.global_zone\n', 'C05.5'),
]
MUTANTS += [
    V('c05-embedded-string-global', 'assembler/line_object/factory.py', "                        comment_str,\n                        current_memzone,\n                        model.cstr_terminator,", "                        comment_str,\n                        memzone_manager.global_zone,\n                        model.cstr_terminator,", 'C05.6'),
    V('c05-label-global', 'assembler/line_object/factory.py', "                    label_scope,\n                    current_memzone,\n                )", "                    label_scope,\n                    memzone_manager.global_zone,\n                )", 'C05.6'),
    V('c05-org-by-resolved-zone', _AD, '        if self._parsed_memzone_name is None:\n', '        if self.memory_zone is self.memzone_manager.global_zone:\n', 'C05.4'),
]
TWINS = [
    V('c05-t-flip-compare', _MZ, 'if value < self.start:', 'if self.start > value:'),
    V('c05-t-backing-field', _MZ, 'if value > self.end + 1:', 'if value > self._end + 1:'),
    V('c05-t-rename-param', _MZ, '''    def current_address(self, value: int):
        if value < self.start:''', '''    def current_address(self, value: int):
        if not (value >= self.start):'''),
    V('c05-t-rearranged', _MG, 'if end > self.global_zone.end:', 'if self.global_zone.end < end:'),
    V('c05-t-width', _MZ, 'if end > ((2**address_bits)-1):', 'if end >= (1 << address_bits):'),
    V('c05-t-engine-sum', 'assembler/engine.py', 'lobj.memory_zone.current_address = lobj.address + lobj.byte_size',
      'lobj.memory_zone.current_address = lobj.byte_size + lobj.address'),
]
