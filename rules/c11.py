"""C11 - data and fill directives emit exactly the bytes they describe."""
import ast

from engine.index import AnalysisError
from engine.helpers import (resolver, facts_at, filter_facts_at, lit_cmp, describe_facts, unparse, walk_no_nested, returns,
                            deref, body_only_aborts, calls_to, reaching_def, self_attr_stores)
from engine.lin import clause_implies, to_lin
from engine.types import bind_args
from engine import rx
from engine.selftest import V
import re._constants as sre

DL = 'bespokeasm.assembler.line_object.data_line.DataLine'
FD = 'bespokeasm.assembler.line_object.directive_line.fill_data'
DF = 'bespokeasm.assembler.line_object.directive_line.factory.DirectiveLine.factory'
ES = 'bespokeasm.assembler.line_object.emdedded_string.EmbeddedString'
PL = 'bespokeasm.assembler.line_object.factory.LineOjectFactory.parse_line'
MODEL = 'bespokeasm.assembler.model.AssemblerModel'

EXPLANATION = (
    'Static rules over DataLine, the fill directives, EmbeddedString and their factories. Decided: C11.1 the directive '
    'names of the pattern, the size table and the mask table agree and MASK[d] = 2**(8*SIZE[d]) - 1; C11.2 each value is '
    'masked with MASK[d] and converted to SIZE[d] bytes in the configured byte order, unsigned, the byte order flowing from '
    'general.endian (default big); C11.3 strings emit one byte per character (ord of each character of the escape-processed '
    'text), the terminator is appended iff the directive is .cstr/.asciiz and for embedded strings, its value comes from '
    'cstr_terminator & 0xFF, embedded strings only when enabled; C11.4 bytes are masked to 8 bits, .fill emits count copies '
    'of the low byte, .zero passes 0, .zerountil reserves until - address + 1 if until >= address else 0 and nothing else; '
    'C11.5 numeric items are kept as text and evaluated in the second pass (forward references). Not decided: unicode_escape '
    'decoding, characters above 255, expression values.'
)
ASSUMPTIONS = ['re._parser AST of the folded data directive pattern', 'the .fill/.zero/.zerountil factories are matched by their pattern constants']


def c11_1(ctx):
    ctx.rule('C11.1', 'directive names, size table and mask table agree', 4)
    pat = ctx.fold.class_const(DL, 'PATTERN_DATA_DIRECTIVE')
    size = ctx.fold.class_const(DL, 'DIRECTIVE_VALUE_BYTE_SIZE')
    mask = ctx.fold.class_const(DL, 'DIRECTIVE_VALUE_MASK')
    site = 'src/bespokeasm/assembler/line_object/data_line.py:11'
    # names in the first capturing group of the pattern
    names = set(rx.group_strings(pat.pattern, pat.flags, 1) or [])
    ctx.check(names == set(size) == set(mask), 'table:same-directives', site, 'pattern, size table and mask table list the same directives',
              f'pattern {sorted(names)}; sizes {sorted(size)}; masks {sorted(mask)}')
    bad = {d: (size.get(d), mask.get(d)) for d in size if mask.get(d) != 2 ** (8 * size[d]) - 1}
    ctx.check(not bad, 'table:mask=2^(8*size)-1', site, 'MASK[d] = 2**(8*SIZE[d]) - 1 (value reduced modulo 2^width)', f'mismatches (size, mask): {bad}')
    want = {'.byte': 1, '.2byte': 2, '.4byte': 4, '.8byte': 8, '.cstr': 1, '.asciiz': 1}
    ctx.check(size == want, 'table:sizes', site, '.byte/.2byte/.4byte/.8byte are 1/2/4/8 bytes wide, string directives 1', str(size))
    kw = ctx.fold.module_const('bespokeasm.assembler.keywords', 'BYTECODE_DIRECTIVES_SET')
    ctx.check({n.lstrip('.') for n in names} <= set(kw), 'table:keywords', site, 'every data directive is a reserved directive keyword', str(sorted(names)))


def c11_2(ctx):
    ctx.rule('C11.2', 'value & MASK[d] converted to SIZE[d] bytes in the configured byte order, unsigned', 5)
    gb = ctx.repo.func(DL + '.generate_bytes')
    tb = [c for c in ast.walk(gb.node) if isinstance(c, ast.Call) and isinstance(c.func, ast.Attribute) and c.func.attr == 'to_bytes']
    if len(tb) != 1:
        raise AnalysisError('DataLine.generate_bytes: expected one to_bytes call')
    c = tb[0]
    recv = c.func.value
    ok = isinstance(recv, ast.BinOp) and isinstance(recv.op, ast.BitAnd) and \
        'DataLine.DIRECTIVE_VALUE_MASK[self._directive]' in (unparse(recv.left), unparse(recv.right))
    ctx.check(ok, 'convert:masked', gb.site(c), 'the value is reduced with MASK[directive] before conversion', unparse(recv))
    kws = {k.arg: unparse(k.value) for k in c.keywords}
    length = unparse(c.args[0]) if c.args else kws.get('length')
    ctx.check(length == 'DataLine.DIRECTIVE_VALUE_BYTE_SIZE[self._directive]', 'convert:width', gb.site(c), 'converted to SIZE[directive] bytes', str(length))
    bo = kws.get('byteorder', unparse(c.args[1]) if len(c.args) > 1 else None)
    ctx.check(bo == 'self._endian', 'convert:byte-order', gb.site(c), 'in the line\'s configured byte order', str(bo))
    ctx.check(kws.get('signed', 'False') == 'False', 'convert:unsigned', gb.site(c), 'unsigned conversion of the masked value', str(kws.get('signed')))
    # endian provenance
    init = ctx.repo.func(DL + '.__init__')
    st = self_attr_stores(init.node, '_endian')
    ok = len(st) == 1 and unparse(st[0][2]) == 'endian'
    fac = ctx.repo.func(DL + '.factory')
    ctor = [x for x in ast.walk(fac.node) if isinstance(x, ast.Call) and unparse(x.func) == 'DataLine']
    ok = ok and len(ctor) == 1 and unparse(bind_args(ctor[0], init).get('endian')) == 'endian'
    df = ctx.repo.func(DF)
    dcall = [x for x in ast.walk(df.node) if isinstance(x, ast.Call) and unparse(x.func) == 'DataLine.factory']
    ok = ok and len(dcall) == 1 and unparse(bind_args(dcall[0], fac).get('endian')) == 'endian'
    pl = ctx.repo.func(PL)
    pcall = [x for x in ast.walk(pl.node) if isinstance(x, ast.Call) and unparse(x.func) == 'DirectiveLine.factory']
    ok = ok and len(pcall) == 1 and unparse(bind_args(pcall[0], df).get('endian')) == 'model.endian'
    ctx.check(ok, 'convert:endian-provenance', init.site(), 'the byte order flows unchanged from the ISA model to the data line', '')
    me = ctx.repo.func(MODEL + '.endian')
    vals = sorted(unparse(r.value) for r in returns(me))
    ctx.check(vals == ["'big'", "self._config['general']['endian']"], 'convert:endian-key', me.site(), "model.endian is general.endian, default 'big'", str(vals))


def c11_3(ctx):
    ctx.rule('C11.3', 'strings: one byte per character; terminator iff .cstr/.asciiz or embedded string', 9)
    fac = ctx.repo.func(DL + '.factory')
    res = resolver(ctx, fac, inline=False)
    # string branch: values_list = [ord(x) for x in list(converted)]
    defs = [n for n in walk_no_nested(fac.node) if isinstance(n, ast.Assign) and unparse(n.targets[0]) == 'values_list']
    sdef = [n for n in defs if 'ord(' in unparse(n.value) or 'encode' in unparse(n.value) or 'converted' in unparse(n.value)]
    ok = False
    detail = '; '.join(unparse(n) for n in sdef)
    for n in sdef:
        v = n.value
        if isinstance(v, ast.ListComp) and isinstance(v.elt, ast.Call) and unparse(v.elt.func) == 'ord' and unparse(v.elt.args[0]) == unparse(v.generators[0].target) \
                and not v.generators[0].ifs:
            src = v.generators[0].iter
            if isinstance(src, ast.Call) and unparse(src.func) == 'list':
                src = src.args[0]
            d = deref(ctx, fac, src, n)
            if isinstance(d, ast.Call) and isinstance(d.func, ast.Attribute) and d.func.attr == 'decode' and "'unicode_escape'" in [unparse(a) for a in d.args] \
                    and 'group(3)' in unparse(d):
                ok = True
            detail = f'{unparse(n)}; text = {unparse(d)}'
    # where a quoted string ends: at the first closing quote that is not escaped (so that `'a', 'b'` is two items, not one string)
    import re._parser as _P
    import re._constants as _sre
    pd = ctx.fold.class_const(DL, 'PATTERN_DATA_DIRECTIVE')
    body = None
    for op_, av_ in _P.parse(pd.pattern, pd.flags):
        if op_ == _sre.BRANCH:
            for alt in av_[1]:
                for o2, a2 in alt:
                    if o2 == _sre.SUBPATTERN and a2[0] == 3:
                        body = a2[3]
    lazy_or_excluding = False
    if body and len(body) == 1 and body[0][0] in (_sre.MAX_REPEAT, _sre.MIN_REPEAT):
        rep_op, (lo_, hi_, inner) = body[0]
        any_char = any(o3 == _sre.ANY for o3, _ in inner) or any(o3 == _sre.BRANCH and any(x[0][0] == _sre.ANY for x in a3[1] if x) for o3, a3 in inner)
        lazy_or_excluding = rep_op == _sre.MIN_REPEAT or not any_char
    ctx.check(lazy_or_excluding, 'string:ends-at-first-closing-quote', f'{ctx.repo.cls(DL).module.relpath}:11',
              'the text of a quoted string stops at the first unescaped closing quote',
              'the string body is a greedy `.`-repeat: it runs to the LAST quote on the line, so `.byte \'a\', \'b\'` is the six-character string a\', \'b')
    ctx.check(ok, 'string:one-byte-per-character', fac.site(sdef[0]) if sdef else fac.site(),
              'a quoted string yields the ordinal of each character of its escape-processed text, one value per character', detail)
    ext = [c for c in ast.walk(fac.node) if isinstance(c, ast.Call) and isinstance(c.func, ast.Attribute) and c.func.attr in ('extend', 'append')
           and unparse(c.func.value) == 'values_list']
    good = False
    for c in ext:
        fcl = filter_facts_at(ctx, fac, c, res)
        if "('isnone', 'data_match.group(3)', True)" in repr(fcl) or any(('isnone', 'data_match.group(3)', True) in cl_ and len(cl_) == 1 for cl_ in fcl):
            continue      # the numeric-list branch builds its list of item texts; no string, no terminator
        a = unparse(c.args[0])
        term = a in ('[cstr_terminator]', 'cstr_terminator')
        txt = describe_facts(fcl)
        only = ".cstr" in txt and ".asciiz" in txt and 'data_match.group(3)' in txt
        ctx.check(term and only, 'string:terminator-iff-cstr', fac.site(c), 'the configured terminator is appended exactly for .cstr / .asciiz strings',
                  f'{unparse(c)} under {txt}')
        good = True
    if not good:
        ctx.refute('string:terminator-iff-cstr', fac.site(), '.cstr / .asciiz append the terminator', 'no append of the terminator')
    df = ctx.repo.func(DF)
    dcall = [x for x in ast.walk(df.node) if isinstance(x, ast.Call) and unparse(x.func) == 'DataLine.factory']
    ok = len(dcall) == 1 and unparse(bind_args(dcall[0], fac).get('cstr_terminator')) == 'isa_model.cstr_terminator'
    ctx.check(ok, 'string:terminator-from-model', df.site(dcall[0]) if dcall else df.site(), 'the terminator value is the ISA model\'s cstr_terminator', unparse(dcall[0]) if dcall else '')
    ct = ctx.repo.func(MODEL + '.cstr_terminator')
    vals = sorted(unparse(r.value) for r in returns(ct))
    ctx.check(vals == ['0', "int(self._config['general']['cstr_terminator']) & 255"], 'string:terminator-key', ct.site(),
              'cstr_terminator is general.cstr_terminator & 0xFF, default 0', str(vals))
    # embedded string
    ei = ctx.repo.func(ES + '.__init__')
    st = self_attr_stores(ei.node, '_string_bytes')
    ok = len(st) == 1 and isinstance(st[0][2], ast.BinOp) and isinstance(st[0][2].op, ast.Add) and unparse(st[0][2].right) == '[cstr_terminator]' \
        and isinstance(st[0][2].left, ast.ListComp) and unparse(st[0][2].left.elt) == f'ord({unparse(st[0][2].left.generators[0].target)})'
    ctx.check(ok, 'embedded:bytes+terminator', ei.site(), 'an embedded string is one byte per character followed by the terminator', '; '.join(unparse(s[0]) for s in st))
    ef = ctx.repo.func(ES + '.factory')
    ctor = [x for x in ast.walk(ef.node) if isinstance(x, ast.Call) and unparse(x.func) in ('EmbeddedString', 'cls')]
    ok = len(ctor) == 1
    if ok:
        b = bind_args(ctor[0], ei)
        ok = unparse(b.get('cstr_terminator')) == 'cstr_terminator' and 'group(2)' in unparse(b.get('quoted_string')) and 'group(0)' in unparse(b.get('instruction'))
    ctx.check(ok, 'embedded:factory-passes-terminator', ef.site(ctor[0]) if ctor else ef.site(),
              'the factory hands the configured terminator (and the quoted text) to the line', unparse(ctor[0]) if ctor else 'no constructor call')
    pl = ctx.repo.func(PL)
    ecall = [x for x in ast.walk(pl.node) if isinstance(x, ast.Call) and unparse(x.func) == 'EmbeddedString.factory']
    r2 = resolver(ctx, pl, inline=False)
    ok = len(ecall) == 1
    if ok:
        b = bind_args(ecall[0], ef)
        cl = facts_at(ctx, pl, ecall[0], r2)
        ok = unparse(b.get('cstr_terminator')) == 'model.cstr_terminator' and any(
            len(c) == 1 and next(iter(c))[0] == 'truthy' and 'allow_embedded_strings' in next(iter(c))[1] and next(iter(c))[-1] for c in cl)
    ctx.check(ok, 'embedded:only-when-enabled', pl.site(ecall[0]) if ecall else pl.site(),
              'bare quoted strings are assembled only when the ISA enables them, with the model\'s terminator', unparse(ecall[0]) if ecall else '')
    ae = ctx.repo.func(MODEL + '.allow_embedded_strings')
    rr = returns(ae)
    ctx.check(len(rr) == 1 and unparse(rr[0].value) == "self._config['general'].get('allow_embedded_strings', False)", 'embedded:key', ae.site(),
              'allow_embedded_strings reads general.allow_embedded_strings (default off)', '; '.join(unparse(r) for r in rr))
    # cstr used with a non-string is rejected
    ex = [n for n in walk_no_nested(fac.node) if isinstance(n, ast.If) and '.cstr' in unparse(n.test) and body_only_aborts(n.body)]
    ctx.check(len(ex) == 1, 'string:cstr-needs-string', fac.site(ex[0]) if ex else fac.site(), '.cstr/.asciiz with a non-string value is rejected', f'{len(ex)} aborting checks')


def c11_4(ctx):
    ctx.rule('C11.4', 'byte masking, .fill / .zero / .zerountil quantities', 8)
    ab = ctx.repo.func('bespokeasm.assembler.line_object.LineWithBytes._append_byte')
    calls_ = [c for c in ast.walk(ab.node) if isinstance(c, ast.Call) and unparse(c.func) == 'self._bytes.append']
    ok = len(calls_) == 1 and unparse(calls_[0].args[0]).replace('0xFF', '255') in (f'{ab.call_params[0].arg} & 255', f'255 & {ab.call_params[0].arg}')
    ctx.check(ok, 'byte:masked', ab.site(), 'an appended byte is the low 8 bits of the value', '; '.join(unparse(c) for c in calls_))
    fd = ctx.repo.cls(FD + '.FillDataLine')
    gb = fd.methods['generate_bytes']
    ext = [c for c in ast.walk(gb.node) if isinstance(c, ast.Call) and unparse(c.func) == 'self._bytes.extend']
    ok = len(ext) == 1 and isinstance(ext[0].args[0], ast.BinOp) and isinstance(ext[0].args[0].op, ast.Mult)
    if ok:
        lst = ext[0].args[0].left if isinstance(ext[0].args[0].left, ast.List) else ext[0].args[0].right
        ok = isinstance(lst, ast.List) and len(lst.elts) == 1 and unparse(lst.elts[0]).replace('0xFF', '255') in ('self._value & 255', '255 & self._value')
    ctx.check(ok, 'fill:low-byte-of-value', gb.site(), '.fill emits copies of the low byte of its value', '; '.join(unparse(e) for e in ext))
    st = self_attr_stores(gb.node, '_value')
    ctx.check(bool(st) and all(unparse(v) == 'self._value_expr.get_value(self.label_scope, self.line_id)' for _, _, v in st), 'fill:value-source', gb.site(),
              'the fill value is the value expression evaluated in the line\'s scope', '; '.join(unparse(s[0]) for s in st))
    init = fd.methods['__init__']
    for attr, param in (('_count_expr', 'fill_count_expression'), ('_value_expr', 'fill_value_expression')):
        s_ = self_attr_stores(init.node, attr)
        ctx.check(len(s_) == 1 and unparse(s_[0][2]) == f'parse_expression(line_id, {param})', f'fill:{attr}', init.site(), f'{attr} parses {param}', '; '.join(unparse(x[0]) for x in s_))
    # factories
    df = ctx.repo.func(DF)
    fu = ctx.repo.cls(FD + '.FillUntilDataLine')

    def block_for(pat):
        for i in walk_no_nested(df.node):
            if isinstance(i, ast.If) and 'line_match' in unparse(i.test):
                d = reaching_def(ctx, df, 'line_match', i)
                if d is not None and pat in unparse(d):
                    return i
        return None

    def group_no(e, at):
        d = deref(ctx, df, e, at)
        if isinstance(d, ast.Call) and isinstance(d.func, ast.Attribute) and d.func.attr == 'group' and d.args:
            return ctx.fold.try_fold(d.args[0], df.module)
        if isinstance(d, ast.Constant):
            return repr(d.value)
        return unparse(d)
    for pat, cname, want in (('PATTERN_FILL_DIRECTIVE', 'FillDataLine', (1, 2)), ('PATTERN_ZERO_DIRECTIVE', 'FillDataLine', (1, "'0'")),
                             ('PATTERN_ZEROUNTIL_DIRECTIVE', 'FillUntilDataLine', (1, "'0'"))):
        blk = block_for(pat)
        if blk is None:
            ctx.err(f'factory:{pat}', df.site(), 'directive block found', 'not found')
            continue
        ctor = [c for b_ in blk.body for c in ast.walk(b_) if isinstance(c, ast.Call) and unparse(c.func) == cname]
        ok = len(ctor) == 1
        got = None
        if ok:
            ini = (fd if cname == 'FillDataLine' else fu).methods['__init__']
            b = bind_args(ctor[0], ini)
            p1, p2 = [p.arg for p in ini.call_params[3:5]]
            got = (group_no(b.get(p1), ctor[0]), group_no(b.get(p2), ctor[0]))
            ok = got == want and 'group(0)' in unparse(b.get('instruction'))
        ctx.check(ok, f'factory:{pat}', df.site(blk), f'{pat} builds {cname}(count/address = group {want[0]}, value = {want[1]}) and consumes the matched text',
                  f'arguments {got}')
    # zerountil piecewise size
    bs = fu.methods['byte_size']
    res = resolver(ctx, bs, inline=False)
    rr = [r for r in returns(bs) if r.value is not None]
    forms = []
    for r in rr:
        cl = facts_at(ctx, bs, r, res)
        forms.append((to_lin(r.value, res).key(), cl, r))
    want_pos = to_lin(ast.parse('self._fill_until_addr - self.address + 1', mode='eval').body, res).key()
    ge = lit_cmp(ctx, bs, 'self._fill_until_addr >= self.address', res)
    lt = lit_cmp(ctx, bs, 'self._fill_until_addr < self.address', res)
    pos = [f for f in forms if f[0] == want_pos]
    zero = [f for f in forms if f[0] == ((), 0)]
    ok = len(forms) == 2 and len(pos) == 1 and len(zero) == 1 and pos[0][1] == [frozenset({ge})] and zero[0][1] == [frozenset({lt})]
    if len(forms) == 1 and isinstance(rr[0].value, ast.Call) and unparse(rr[0].value.func) == 'max':
        a = [to_lin(x, res).key() for x in rr[0].value.args]
        ok = sorted(a) == sorted([((), 0), want_pos])
    ctx.check(ok, 'zerountil:size', bs.site(), '.zerountil reserves until - address + 1 bytes if until >= address, else 0 - and nothing else',
              '; '.join(f'{unparse(f[2])} when {describe_facts(f[1])}' for f in forms))
    st = self_attr_stores(bs.node, '_fill_until_addr')
    ctx.check(bool(st) and all(unparse(v) == 'self._fill_until_addr_expr.get_value(self.label_scope, self.line_id)' for _, _, v in st), 'zerountil:target-source', bs.site(),
              'the target address is the address expression evaluated in the line\'s scope', '; '.join(unparse(s[0]) for s in st))


def c11_5(ctx):
    ctx.rule('C11.5', 'numeric items are kept as text and evaluated when bytes are generated', 3)
    fac = ctx.repo.func(DL + '.factory')
    defs = [n for n in walk_no_nested(fac.node) if isinstance(n, ast.Assign) and unparse(n.targets[0]) == 'values_list' and 'split' in unparse(n.value)]
    ok = len(defs) == 1 and isinstance(defs[0].value, ast.ListComp) and unparse(defs[0].value.elt) == f'{unparse(defs[0].value.generators[0].target)}.strip()' \
        and "group(4)" in unparse(defs[0].value.generators[0].iter) and "split(',')" in unparse(defs[0].value.generators[0].iter)
    if not ok and not defs:
        # the same list built by a loop: one append per comma-separated piece, of the stripped piece, unless it is empty
        loops = [l for l in walk_no_nested(fac.node) if isinstance(l, ast.For) and 'group(4)' in unparse(l.iter) and "split(',')" in unparse(l.iter)]
        if len(loops) == 1:
            lp = loops[0]
            apps = [c for c in ast.walk(lp) if isinstance(c, ast.Call) and isinstance(c.func, ast.Attribute) and c.func.attr == 'append' and unparse(c.func.value) == 'values_list']
            tv = unparse(lp.target)
            if len(apps) == 1 and isinstance(lp.target, ast.Name):
                e = apps[0].args[0]
                # `item = item.strip()` first: the appended name is the stripped piece
                rebinds = [n for n in walk_no_nested(lp) if isinstance(n, ast.Assign) and unparse(n.targets[0]) == unparse(e)]
                val = unparse(rebinds[0].value) if len(rebinds) == 1 and isinstance(e, ast.Name) else unparse(e)
                ok = val == f'{tv}.strip()'
                defs = [lp]
    ctx.check(ok, 'items:kept-as-text', fac.site(defs[0]) if defs else fac.site(), 'the listed values are kept as (stripped) expression text, one item per comma', '; '.join(unparse(d)[:160] for d in defs))
    gb = ctx.repo.func(DL + '.generate_bytes')
    res = resolver(ctx, gb, inline=False)
    pe = [c for c in ast.walk(gb.node) if isinstance(c, ast.Call) and unparse(c.func) == 'parse_expression']
    ok = len(pe) == 1 and unparse(pe[0].args[1]) == unparse(next(l.target for l in walk_no_nested(gb.node) if isinstance(l, ast.For) and unparse(l.iter) == 'self._arg_value_list'))
    ctx.check(ok, 'items:parsed-in-second-pass', gb.site(pe[0]) if pe else gb.site(), 'each text item is parsed and evaluated while generating bytes (labels are bound by then)', '; '.join(unparse(c) for c in pe))
    gvs = [c for c in ast.walk(gb.node) if isinstance(c, ast.Call) and isinstance(c.func, ast.Attribute) and c.func.attr == 'get_value']
    ctx.check(len(gvs) == 1 and unparse(gvs[0].args[0]) == 'self.label_scope', 'items:own-scope', gb.site(), 'items are evaluated in the line\'s own scope', '; '.join(unparse(c) for c in gvs))
    init = ctx.repo.func(DL + '.__init__')
    st = self_attr_stores(init.node, '_arg_value_list')
    ctor = [x for x in ast.walk(fac.node) if isinstance(x, ast.Call) and unparse(x.func) == 'DataLine']
    ok = len(st) == 1 and unparse(st[0][2]) == 'value_list' and len(ctor) == 1 and unparse(bind_args(ctor[0], init).get('value_list')) == 'values_list' \
        and unparse(bind_args(ctor[0], init).get('directive_str')) == 'directive_str'
    ctx.check(ok, 'items:handed-to-line', init.site(), 'the item list and directive name reach the data line unchanged', '')
    ds = [n for n in walk_no_nested(fac.node) if isinstance(n, ast.Assign) and unparse(n.targets[0]) == 'directive_str']
    ctx.check(len(ds) == 1 and 'group(1)' in unparse(ds[0].value), 'items:directive=group1', fac.site(), 'the directive name is pattern group 1', '; '.join(unparse(d) for d in ds))


def c11_consume(ctx):
    """A data directive emits its bytes once per occurrence only if the statement loop removes exactly the text of the
    statement it just parsed (C14.4): removing more drops later directives on the line, removing less parses it twice."""
    from rules.c14 import c14_4
    c14_4(ctx)


def c11_values(ctx):
    """Listed values "may be arbitrary expressions": they get their value from the expression parser only (C07.6)."""
    from rules.c07 import c07_who, c07_5
    c07_who(ctx)
    c07_5(ctx)


def c11_state(ctx):
    """Nothing is remembered between statements / files beyond the reviewed state (rules/shared.py STATE)."""
    from rules.shared import state_discipline
    state_discipline(ctx, ('bespokeasm.assembler.line_object',))


def c11_path(ctx):
    """The bytes a directive describes reach the image only if the source line reaches the factory as written (C18.3: only leading and
    trailing blanks are dropped) and every unmuted line's bytes are put into the image map (C03.1)."""
    from rules.c18 import c18_3
    from rules.c03 import c03_1, c03_3
    c18_3(ctx)
    c03_1(ctx)
    c03_3(ctx)

def c11_symbols(ctx):
    """A string or value written through a preprocessor symbol is the symbol's text, character for character (C09.1: literal replacement)."""
    from rules.c09 import c09_1
    c09_1(ctx)


RULES = [c11_1, c11_2, c11_3, c11_4, c11_5, c11_consume, c11_values, c11_state, c11_path, c11_symbols]

_D = 'assembler/line_object/data_line.py'
_F = 'assembler/line_object/directive_line/fill_data.py'
_E = 'assembler/line_object/emdedded_string.py'
MUTANTS = [
    V('c11-4byte-mask', _D, "'.4byte': 0xFFFFFFFF,", "'.4byte': 0xFFFF,", 'C11.1'),
    V('c11-endian-literal', _D, "                    byteorder=self._endian,", "                    byteorder='big',", 'C11.2'),
    V('c11-terminator-always', _D, "                if directive_str == '.cstr' or directive_str == '.asciiz':\n                    # Add a 0-value at the end of the string values.\n                    values_list.extend([cstr_terminator])",
      "                values_list.extend([cstr_terminator])", 'C11.3'),
    V('c11-terminator-zero', _D, "                    values_list.extend([cstr_terminator])", "                    values_list.extend([0])", 'C11.3'),
    V('c11-until-no-plus1', _F, "            return self._fill_until_addr - self.address + 1", "            return self._fill_until_addr - self.address", 'C11.4'),
    V('c11-until-strict', _F, "        if self._fill_until_addr >= self.address:\n            return", "        if self._fill_until_addr > self.address:\n            return", 'C11.4'),
    V('c11-until-at-zero', _F, "        if self._fill_until_addr >= self.address:\n            return", "        if not self.address:\n            return 0\n        if self._fill_until_addr >= self.address:\n            return", 'C11.4'),
    V('c11-embedded-drops-terminator', _E, "return EmbeddedString(line_id, match.group(0), match.group(2), comment, current_memzone, cstr_terminator)", "return cls(line_id, match.group(0), match.group(2), comment, current_memzone)", 'C11.3'),
    V('c11-utf8-bytes', _D, "values_list = [ord(x) for x in list(converted_str)]", "values_list = list(converted_str.encode('utf-8'))", 'C11.3'),
    V('c11-signed', _D, "                    signed=False,", "                    signed=True,", 'C11.2'),
    V('c11-fill-no-mask', _F, "self._bytes.extend([(self._value) & 0xFF]*self._count)", "self._bytes.extend([self._value]*self._count)", 'C11.4'),
    V('c11-zero-value', 'assembler/line_object/directive_line/factory.py', "                count_str,\n                '0',\n                current_memzone,", "                count_str,\n                count_str,\n                current_memzone,", 'C11.4'),
    V('c11-fill-swapped', 'assembler/line_object/directive_line/factory.py', "            count_str = line_match.group(1)\n            value_str = line_match.group(2)\n            return FillDataLine(", "            count_str = line_match.group(2)\n            value_str = line_match.group(1)\n            return FillDataLine(", 'C11.4'),
    V('c11-embedded-always', 'assembler/line_object/factory.py', "                if model.allow_embedded_strings:\n", "                if True:\n", 'C11.3'),
    V('c11-terminator-unmasked', 'assembler/model/__init__.py', "return int(self._config['general']['cstr_terminator']) & 0xFF", "return int(self._config['general']['cstr_terminator'])", 'C11.3'),
    V('c11-values-evaluated-early', _D, "values_list = [x.strip() for x in data_match.group(4).strip().split(',') if x.strip() != '']", "values_list = [parse_expression(line_id, x).get_value(None, line_id) for x in data_match.group(4).strip().split(',') if x.strip() != '']", 'C11.5'),
    V('c11-append-no-mask', 'assembler/line_object/__init__.py', "self._bytes.append(byte_value & 0xFF)", "self._bytes.append(byte_value)", 'C11.4'),
]
TWINS = [
    V('c11-t-max-form', _F, '''        if self._fill_until_addr >= self.address:
            return self._fill_until_addr - self.address + 1
        else:
            return 0''', '''        return max(0, self._fill_until_addr - self.address + 1)'''),
    V('c11-t-mask-hex', 'assembler/line_object/__init__.py', "self._bytes.append(byte_value & 0xFF)", "self._bytes.append(0xff & byte_value)"),
]
