"""C10 - a macro assembles to exactly its expanded instruction sequence."""
import ast

from engine.index import AnalysisError
from engine.helpers import (resolver, facts_at, filter_facts_at, lit_cmp, describe_facts, unparse, walk_no_nested, returns,
                            deref, body_only_aborts, calls_to, reaching_def, self_attr_stores)
from engine.lin import clause_implies, to_lin
from engine.types import CallGraph, bind_args
from engine.selftest import V

ASM = 'bespokeasm.assembler.bytecode.assembled'
MG = 'bespokeasm.assembler.bytecode.generator.macro.MacroBytecodeGenerator'
IG = 'bespokeasm.assembler.bytecode.generator.instruction.InstructionBytecodeGenerator'
PO = 'bespokeasm.assembler.model.operand.ParsedOperand'

EXPLANATION = (
    'Static rules over CompositeAssembledInstruction, the macro generator and ParsedOperand. Decided: C10.1 the composite '
    'reserves the sum of its steps\' byte sizes (the last store of the size, after the base constructor) and produces its '
    'bytes by delegating to each step\'s get_bytes in order with the step\'s own address (macro address plus the sizes of '
    'the preceding steps) and own size; C10.2 the three placeholder kinds @ARG/@REG/@OP are replaced by the matching '
    'operand accessor, a missing argument/register aborts, leftovers abort, accessors return the argument text / register '
    'name / full operand text; C10.3 macro and instruction generators select variants by the same prologue (operand '
    'split, find_matching_operands with the same arguments, operands given to an operand-less variant mean no match), '
    'first matching variant wins, none -> exit, steps are assembled in template order; C10.4 macro names cannot collide '
    'with instruction names. Not decided: byte equality with the hand-expanded program for all macro bodies.'
)
ASSUMPTIONS = ['the instruction generator is the reference sibling for variant selection (C13 checks it against the property)']


def c10_1(ctx):
    ctx.rule('C10.1', 'composite = sum of step sizes; bytes delegated per step at its own address', 6)
    comp = ctx.repo.cls(ASM + '.CompositeAssembledInstruction')
    init = comp.methods.get('__init__')
    if init is None:
        raise AnalysisError('CompositeAssembledInstruction.__init__ vanished')
    g = ctx.cfg(init)
    ipar = init.call_params[1].arg
    sup = [c for c in ast.walk(init.node) if isinstance(c, ast.Call) and unparse(c.func) == 'super().__init__']
    stores = self_attr_stores(init.node, '_byte_size')
    bs_override = comp.methods.get('byte_size')
    if bs_override is not None:
        rr = returns(bs_override)
        ok = len(rr) == 1 and isinstance(rr[0].value, ast.Call) and unparse(rr[0].value.func) == 'sum' and 'byte_size' in unparse(rr[0].value)
        ctx.check(ok, 'composite:size=sum-of-steps', bs_override.site(), 'the composite\'s size is the sum of its steps\' sizes', '; '.join(unparse(r) for r in rr))
    else:
        def is_sum(v):
            return isinstance(v, ast.Call) and unparse(v.func) == 'sum' and len(v.args) == 1 and isinstance(v.args[0], (ast.GeneratorExp, ast.ListComp)) \
                and unparse(v.args[0].elt) == f'{unparse(v.args[0].generators[0].target)}.byte_size' \
                and unparse(v.args[0].generators[0].iter) in (ipar, 'self._instructions') and not v.args[0].generators[0].ifs
        good = [s for s in stores if is_sum(s[2])]
        if not good:
            ctx.refute('composite:size=sum-of-steps', init.site(), 'the composite reserves the sum of its steps\' byte sizes',
                       'no `self._byte_size = sum(step.byte_size ...)`: the size is computed by the base class over the flattened bit '
                       'string of all steps (two 5-bit steps reserve 2 bytes but are packed into 10 bits)',
                       witness={'macro': 'two steps of 5 bits each'})
        for s in good:
            ok = bool(sup) and all(g.dominates(g.node_of(c), g.node_of(s[0])) for c in sup) and \
                not any(g.reaches(g.node_of(s[0]), g.node_of(o[0])) for o in stores if o is not s)
            ctx.check(ok, 'composite:size=sum-of-steps', init.site(s[0]),
                      'the sum of the step sizes is the last value stored as the composite\'s size (after the base constructor ran)',
                      'the base constructor (which recomputes _byte_size over the flattened parts) runs after this store' if sup else 'no base constructor call')
    st_i = self_attr_stores(init.node, '_instructions')
    ctx.check(len(st_i) == 1 and unparse(st_i[0][2]) == ipar, 'composite:keeps-steps', init.site(), 'the composite keeps its steps in the given order',
              '; '.join(unparse(s[0]) for s in st_i))
    gb = comp.methods.get('get_bytes')
    if gb is None:
        ctx.refute('composite:bytes-per-step', init.site(), 'the composite produces its bytes step by step',
                   'get_bytes is inherited: all parts of all steps are packed as one bit string, and every address-relative operand is '
                   'measured from the macro\'s address', witness={'macro': 'nop + jr target'})
        return
    scope_p, addr_p, size_p = (p.arg for p in gb.call_params[:3])
    loops = [l for l in walk_no_nested(gb.node) if isinstance(l, ast.For) and unparse(l.iter) == 'self._instructions']
    if len(loops) != 1 or not isinstance(loops[0].target, ast.Name):
        # other spellings of "each step at the macro's address plus the sizes of the steps before it"
        want = 'each step is assembled at the macro\'s address plus the byte sizes of the steps before it (a relative or sliced-address operand in a later step depends on it)'
        enum_idx = set()
        for n in ast.walk(gb.node):
            it = n.iter if isinstance(n, (ast.For, ast.comprehension)) else None
            if isinstance(it, ast.Call) and unparse(it.func) == 'enumerate' and it.args and unparse(it.args[0]) == 'self._instructions' \
                    and isinstance(n.target, ast.Tuple) and isinstance(n.target.elts[0], ast.Name):
                enum_idx.add(n.target.elts[0].id)
        step_calls = [c for c in ast.walk(gb.node) if isinstance(c, ast.Call) and isinstance(c.func, ast.Attribute) and c.func.attr == 'get_bytes' and len(c.args) >= 2
                      and unparse(c.func.value) not in ('super()', 'self')]
        for c in step_calls:
            used = {n.id for n in ast.walk(c.args[1]) if isinstance(n, ast.Name)}
            if used & enum_idx:
                ctx.refute('composite:step-address', gb.site(c), want, f'{unparse(c.args[1])}: the offset is the step\'s index in the list, not the number of bytes before it')
                return
        accs = [c for c in ast.walk(gb.node) if isinstance(c, ast.Call) and unparse(c.func).split('.')[-1] == 'accumulate']
        for a in accs:
            arg = deref(ctx, gb, a.args[0], a) if a.args else None
            init_kw = next((k.value for k in a.keywords if k.arg == 'initial'), None)
            txt = unparse(arg) if arg is not None else ''

            def sizes_list(e):
                d = deref(ctx, gb, e, a) if isinstance(e, ast.Name) else e
                return isinstance(d, (ast.ListComp, ast.GeneratorExp)) and unparse(d.elt).endswith('.byte_size') and unparse(d.generators[0].iter) == 'self._instructions' \
                    and not d.generators[0].ifs
            good = False
            if init_kw is not None and sizes_list(arg):
                good = unparse(init_kw) in (addr_p, '0')
            elif isinstance(arg, ast.BinOp) and isinstance(arg.op, ast.Add) and isinstance(arg.left, ast.List) and len(arg.left.elts) == 1 \
                    and unparse(arg.left.elts[0]) in (addr_p, '0') and isinstance(arg.right, ast.Subscript) and isinstance(arg.right.slice, ast.Slice) \
                    and arg.right.slice.lower is None and unparse(arg.right.slice.upper) == '-1' and arg.right.slice.step is None and sizes_list(arg.right.value):
                good = True
            if not good:
                ctx.refute('composite:step-address', gb.site(a), want,
                           f'step addresses come from {unparse(a)} with {txt}: not the running sum that starts at the macro\'s address and leaves out the last step\'s size')
                return
        ctx.err('composite:bytes-per-step', gb.site(), 'get_bytes loops once over self._instructions', f'{len(loops)} loops')
        return
    lp = loops[0]
    st = lp.target.id
    calls_ = [c for c in ast.walk(lp) if isinstance(c, ast.Call) and unparse(c.func) == f'{st}.get_bytes']
    if len(calls_) != 1:
        ctx.refute('composite:bytes-per-step', gb.site(lp), 'each step\'s own get_bytes is called exactly once', f'{len(calls_)} calls')
        return
    c = calls_[0]
    base_gb = ctx.repo.func(ASM + '.AssembledInstruction.get_bytes')
    b = bind_args(c, base_gb)
    ctx.check(unparse(b.get('label_scope')) == scope_p, 'composite:step-scope', gb.site(c), 'steps are evaluated in the macro line\'s scope', unparse(b.get('label_scope')))
    ctx.check(unparse(b.get('instruction_size')) == f'{st}.byte_size', 'composite:step-size', gb.site(c), 'each step is generated with its own size', unparse(b.get('instruction_size')))
    a = b.get('instruction_address')
    ok = False
    detail = unparse(a)
    if isinstance(a, ast.Name) and a.id != addr_p:
        inits = [n for n in walk_no_nested(gb.node) if isinstance(n, ast.Assign) and unparse(n.targets[0]) == a.id and not any(x is n for x in ast.walk(lp))]
        incs = [n for n in walk_no_nested(lp) if isinstance(n, ast.AugAssign) and unparse(n.target) == a.id and isinstance(n.op, ast.Add)]
        g2 = ctx.cfg(gb)
        ok = len(inits) == 1 and unparse(inits[0].value) == addr_p and len(incs) == 1 and unparse(incs[0].value) == f'{st}.byte_size'
        if ok:
            head = g2.node_of(lp)
            body_entry = next(s for s in g2.succ[head] if g2.nodes[s].kind == 'branch' and g2.nodes[s].polarity)
            ok = g2.all_paths_through(body_entry, head, {g2.node_of(incs[0])}) and g2.reaches(g2.node_of(c), g2.node_of(incs[0]))
        detail = f'{a.id}: init {[unparse(i) for i in inits]}, advanced by {[unparse(i) for i in incs]}'
    elif isinstance(a, ast.Name):
        detail = f'{a.id} (the macro\'s own address for every step: address-relative operands of later steps are measured from the wrong address)'
    ctx.check(ok, 'composite:step-address', gb.site(c), 'step k is generated at the macro address plus the sizes of steps 0..k-1', detail)
    # result extended in order, None propagated
    res_name = next((unparse(r.value) for r in returns(gb) if r.value is not None and not (isinstance(r.value, ast.Constant))), None)
    ext = [x for x in ast.walk(lp) if isinstance(x, ast.Call) and isinstance(x.func, ast.Attribute) and x.func.attr == 'extend' and unparse(x.func.value) == res_name]
    ok = len(ext) == 1
    if ok:
        v = deref(ctx, gb, ext[0].args[0], ext[0])
        ok = v is c
    ctx.check(ok, 'composite:concatenated-in-order', gb.site(lp), 'the step bytes are concatenated in step order', f'{[unparse(x) for x in ext]} -> {res_name}')


_PH = {'@ARG': 'operand_argument_string', '@REG': 'operand_register_string', '@OP': 'operand_string'}


def c10_2(ctx):
    ctx.rule('C10.2', 'placeholders @ARG/@REG/@OP: matching accessor, abort on missing, abort on leftovers', 11)
    fn = ctx.repo.func(MG + '.generate_variant_bytecode_parts')
    res = resolver(ctx, fn, inline=False)
    reps = [c for c in ast.walk(fn.node) if isinstance(c, ast.Call) and isinstance(c.func, ast.Attribute) and c.func.attr == 'replace'
            and unparse(c.func.value) == 'instruction_str']
    seen = {}
    for c in reps:
        tok = deref(ctx, fn, c.args[0], c)
        kind = None
        if isinstance(tok, ast.JoinedStr) and tok.values and isinstance(tok.values[0], ast.Constant):
            head = tok.values[0].value
            kind = head.rstrip('(')
            idx = unparse(tok.values[1].value) if len(tok.values) > 1 and isinstance(tok.values[1], ast.FormattedValue) else None
            closed = len(tok.values) == 3 and isinstance(tok.values[2], ast.Constant) and tok.values[2].value == ')' and head.endswith('(')
        if kind not in _PH:
            ctx.err('placeholder:token', fn.site(c), 'placeholder token is f"@KIND({n})"', unparse(tok))
            continue
        seen[kind] = c
        loops = ctx.cfg(fn).loop_facts(ctx.cfg(fn).node_of(c))
        enum = next((l for l, _ in loops if isinstance(l.iter, ast.Call) and unparse(l.iter.func) == 'enumerate'
                     and unparse(l.iter.args[0]) == 'matched_operands.operands'), None)
        ok_idx = enum is not None and isinstance(enum.target, ast.Tuple) and unparse(enum.target.elts[0]) == idx
        op = unparse(enum.target.elts[1]) if enum is not None and isinstance(enum.target, ast.Tuple) else '?'
        ctx.check(closed and ok_idx, f'placeholder:{kind}:token', fn.site(c), f'{kind}(n) is a parenthesis-closed token whose n is the operand\'s position',
                  f'token {unparse(tok)}; index variable {idx}')
        ctx.check(unparse(c.args[1]) == f'{op}.{_PH[kind]}', f'placeholder:{kind}:accessor', fn.site(c),
                  f'{kind}(n) is replaced by operand n\'s {_PH[kind]}', unparse(c.args[1]))
        stmt = next(n for n in walk_no_nested(fn.node) if isinstance(n, ast.Assign) and n.value is c)
        ctx.check(unparse(stmt.targets[0]) == 'instruction_str', f'placeholder:{kind}:result-kept', fn.site(c), 'the replaced text is kept', unparse(stmt))
        if kind in ('@ARG', '@REG'):
            cl = facts_at(ctx, fn, c, res)
            ok = clause_implies(cl, ('isnone', f'{op}.{_PH[kind]}', False))
            ctx.check(ok, f'placeholder:{kind}:missing-aborts', fn.site(c), f'a {kind} placeholder that cannot be filled is rejected', describe_facts(cl))
    for kind in _PH:
        if kind not in seen:
            ctx.refute(f'placeholder:{kind}:accessor', fn.site(), f'{kind}(n) placeholders are substituted', 'no replace call for it')
    # leftovers abort, before the line is accepted
    app = [c for c in ast.walk(fn.node) if isinstance(c, ast.Call) and unparse(c.func) == 'instruction_lines.append']
    g = ctx.cfg(fn)
    for kind in _PH:
        ifs = [i for i in walk_no_nested(fn.node) if isinstance(i, ast.If) and isinstance(i.test, ast.Compare) and isinstance(i.test.ops[0], ast.In)
               and isinstance(i.test.left, ast.Constant) and i.test.left.value == kind and unparse(i.test.comparators[0]) == 'instruction_str' and body_only_aborts(i.body)]
        ok = len(ifs) == 1 and bool(app) and all(g.dominates(g.node_of(ifs[0]), g.node_of(a)) for a in app)
        ctx.check(ok, f'placeholder:{kind}:leftover-aborts', fn.site(ifs[0]) if ifs else fn.site(), f'an unfilled {kind} left in a step is rejected before the step is used',
                  f'{len(ifs)} aborting leftover check(s)')
    # accessors
    po = ctx.repo.cls(PO)
    a = po.methods['operand_argument_string']
    rr = returns(a)
    ra = resolver(ctx, a, inline=False)
    okv = [r for r in rr if unparse(r.value) == 'self.argument.instruction_string']
    ok = len(okv) == 1 and clause_implies(facts_at(ctx, a, okv[0], ra), ('isnone', 'self._argument', False)) and all(
        r is okv[0] or (isinstance(r.value, ast.Constant) and r.value.value is None) for r in rr)
    ctx.check(ok, 'accessor:argument-text', a.site(), 'the argument text of an operand is its argument part\'s instruction string (None without argument)',
              '; '.join(unparse(r) for r in rr))
    r_ = po.methods['operand_register_string']
    rr = returns(r_)
    ok = any(unparse(r.value) == 'self.operand.operand_register_string' for r in rr) and all(
        unparse(r.value) in ('self.operand.operand_register_string', 'None') for r in rr)
    ctx.check(ok, 'accessor:register-name', r_.site(), 'the register name of an operand comes from its operand definition', '; '.join(unparse(r) for r in rr))
    s_ = po.methods['operand_string']
    rr = returns(s_)
    ok = len(rr) == 1 and unparse(rr[0].value) == 'self._operand_str'
    st = self_attr_stores(po.methods['__init__'].node, '_operand_str')
    ok = ok and len(st) == 1 and unparse(st[0][2]) == po.methods['__init__'].call_params[3].arg
    ctx.check(ok, 'accessor:operand-text', s_.site(), 'the full operand text is the text the operand was parsed from', '; '.join(unparse(r) for r in rr))
    # every operand type records the operand's *full* text
    po_init = po.methods['__init__']
    base = ctx.repo.cls('bespokeasm.assembler.model.operand.Operand')
    n_txt = 0
    for c in [base] + base.all_subclasses():
        for mname in ('parse_operand', '_parse_bytecode_parts'):
            f = c.methods.get(mname)
            if f is None or 'operand' not in f.param_names:
                continue
            rebound = [n_ for n_ in ast.walk(f.node) if isinstance(n_, ast.Name) and n_.id == 'operand' and isinstance(n_.ctx, ast.Store)]
            ctx.check(not rebound, f'accessor:operand-text-not-rebound:{c.name}.{mname}', f.site(rebound[0]) if rebound else f.site(),
                      'the parameter holding the operand text keeps the text it was called with', 'the parameter `operand` is assigned a new value before it is recorded')
            for call in [x for x in ast.walk(f.node) if isinstance(x, ast.Call) and unparse(x.func) == 'ParsedOperand']:
                n_txt += 1
                t = bind_args(call, po_init).get('operand_str')
                ctx.check(t is not None and unparse(t) == 'operand', f'accessor:full-operand-text:{c.name}.{mname}', f.site(call),
                          'the text recorded for an operand is the whole operand text it was parsed from (what @OP(n) reproduces)',
                          f'recorded text: {unparse(t) if t is not None else None}')
            if mname == 'parse_operand':
                for r in returns(f):
                    v = deref(ctx, f, r.value, r) if r.value is not None else None
                    if isinstance(v, ast.Call) and unparse(v.func) == 'self._parse_bytecode_parts':
                        n_txt += 1
                        a = v.args[1] if len(v.args) > 1 else None
                        ctx.check(a is not None and unparse(a) == 'operand', f'accessor:full-operand-text:{c.name}.parse_operand:delegated', f.site(r),
                                  'a result delegated to _parse_bytecode_parts was parsed from the whole operand text (otherwise it must be re-wrapped with it)',
                                  f'delegates with text {unparse(a) if a is not None else None}: @OP(n) would reproduce only that part')
    if n_txt < 12:
        ctx.err('accessor:full-operand-text', '-', 'at least 12 ParsedOperand construction sites', f'{n_txt}')
    reg = ctx.repo.func('bespokeasm.assembler.model.operand.types.register.RegisterOperand.operand_register_string')
    rr = returns(reg)
    ctx.check(len(rr) == 1 and unparse(rr[0].value) == 'self.register', 'accessor:register-operand', reg.site(), 'a register operand\'s register string is its register', '; '.join(unparse(r) for r in rr))
    parts = ctx.repo.cls('bespokeasm.assembler.bytecode.parts.ByteCodePart')
    want = {'NumericByteCodePart': 'str(self._value)', 'ExpressionByteCodePart': 'self._expression.strip()'}
    for f in parts.implementations('instruction_string'):
        if f.cls.name in want:
            rr = returns(f)
            ctx.check(len(rr) == 1 and unparse(rr[0].value) == want[f.cls.name], f'accessor:instruction-string:{f.cls.name}', f.site(),
                      f'{f.cls.name}.instruction_string is its own value/expression text', '; '.join(unparse(r) for r in rr))


def _selection_prologue(ctx, fn):
    """Facts describing how a generator matches operands against a variant."""
    out = {}
    od = [n for n in walk_no_nested(fn.node) if isinstance(n, ast.Assign) and unparse(n.targets[0]) == 'operand_list']
    out['operand_list'] = sorted(unparse(n.value) for n in od)
    res = resolver(ctx, fn, inline=False)
    conds = []
    from engine.lin import facts_cnf
    g = ctx.cfg(fn)
    for n in od:
        bf = g.branch_facts(g.node_of(n))
        # a default that a later conditional assignment (an `if` without else) overrides holds exactly when that condition fails:
        # `x = D; if c: x = V` and `if c: x = V else: x = D` are the same table
        for m in od:
            if m is not n and g.dominates(g.node_of(n), g.node_of(m)):
                extra = [f for f in g.branch_facts(g.node_of(m)) if f[2] not in {b[2] for b in bf}]
                if len(extra) == 1:
                    bf = bf + [(extra[0][0], not extra[0][1], extra[0][2])]
        conds.append((unparse(n.value), describe_facts(sorted(facts_cnf(bf, res), key=lambda c: sorted(map(repr, c))))))
    out['operand_list_conditions'] = sorted(conds)
    fm = [c for c in ast.walk(fn.node) if isinstance(c, ast.Call) and isinstance(c.func, ast.Attribute) and c.func.attr == 'find_matching_operands']
    out['find_call'] = [unparse(c) for c in fm]
    out['find_sites'] = fm
    # no-match returns
    nm = []
    for r in returns(fn):
        if isinstance(r.value, ast.Constant) and r.value.value is None:
            nm.append(describe_facts(facts_at(ctx, fn, r, res)))
    out['no_match_when'] = sorted(nm)
    return out


def c10_3(ctx):
    ctx.rule('C10.3', 'macro variants are selected like instruction variants; steps assembled in template order', 7)
    mv = ctx.repo.func(MG + '.generate_variant_bytecode_parts')
    iv = ctx.repo.func(IG + '.generate_variant_bytecode_parts')
    pm, pi = _selection_prologue(ctx, mv), _selection_prologue(ctx, iv)
    ctx.check(pm['operand_list_conditions'] == pi['operand_list_conditions'], 'select:operand-split', mv.site(),
              'the operand text is split exactly as for instructions', f'macro {pm["operand_list_conditions"]} vs instruction {pi["operand_list_conditions"]}')
    ctx.check(pm['find_call'] == pi['find_call'] and len(pm['find_call']) == 1, 'select:same-matching-call', mv.site(pm['find_sites'][0]) if pm['find_sites'] else mv.site(),
              'operands are matched by the same find_matching_operands call as for instructions', f'macro {pm["find_call"]} vs instruction {pi["find_call"]}')
    ctx.check(pm['no_match_when'] == pi['no_match_when'], 'select:same-no-match-conditions', mv.site(),
              'a macro variant reports "no match" under exactly the conditions an instruction variant does (operands missing a match, '
              'or operands given to an operand-less variant)', f'macro: {pm["no_match_when"]}; instruction: {pi["no_match_when"]}')
    # variants in order, first non-None wins, else exit
    for fnq, lab in ((MG + '.generate_bytecode_parts', 'macro'),):
        f = ctx.repo.func(fnq)
        loops = [l for l in walk_no_nested(f.node) if isinstance(l, ast.For)]
        ok = len(loops) == 1 and unparse(loops[0].iter) == f'{f.call_params[0].arg}.variants'
        ctx.check(ok, f'select:{lab}:variants-in-order', f.site(loops[0]) if loops else f.site(), 'variants are tried in definition order', unparse(loops[0].iter) if loops else 'no loop')
        if ok:
            lp = loops[0]
            rr = [r for r in ast.walk(lp) if isinstance(r, ast.Return)]
            res = resolver(ctx, f, inline=False)
            good = len(rr) == 1 and isinstance(rr[0].value, ast.Name) and clause_implies(facts_at(ctx, f, rr[0], res), ('isnone', rr[0].value.id, False))
            ctx.check(good, f'select:{lab}:first-match-wins', f.site(lp), 'the first variant that matches is used', '; '.join(unparse(r) for r in rr))
            g = ctx.cfg(f)
            head = g.node_of(lp)
            ex = next(s for s in g.succ[head] if g.nodes[s].kind == 'branch' and not g.nodes[s].polarity)
            ctx.check(g.exit not in g.reachable_from(ex), f'select:{lab}:none-rejected', f.site(lp), 'a statement no variant accepts is rejected', 'falls through after the loop')
    # steps: templates in order -> parse_instruction in order -> composite in order
    tl = [l for l in walk_no_nested(mv.node) if isinstance(l, ast.For) and isinstance(l.iter, ast.Call) and unparse(l.iter.func) == 'enumerate'
          and "_variant_config['instructions']" in unparse(l.iter.args[0])]
    ctx.check(len(tl) == 1, 'steps:templates-in-order', mv.site(tl[0]) if tl else mv.site(), 'instruction templates are expanded in configuration order',
              f'{len(tl)} template loops')
    from engine.helpers import seq_view
    sv = seq_view(ctx, mv, 'assembled_instructions')
    pl = [sv.site] if sv is not None else []
    ok = sv is not None and isinstance(sv.iter, ast.Call) and unparse(sv.iter.func) == 'enumerate' and unparse(sv.iter.args[0]) == 'instruction_lines' \
        and not sv.conds and isinstance(sv.target, ast.Tuple) and len(sv.target.elts) == 2
    if ok:
        pc = sv.elt
        tgt = ctx.repo.func('bespokeasm.assembler.model.instruction_parser_base.InstructioParserBase.parse_instruction')
        ok = isinstance(pc, ast.Call) and unparse(pc.func) == 'parser_class.parse_instruction'
        if ok:
            b = bind_args(pc, tgt)
            ok = unparse(b.get('instruction')) == unparse(sv.target.elts[1]) and unparse(b.get('isa_model')) == 'isa_model' and unparse(b.get('memzone_manager')) == 'memzone_manager'
    ctx.check(ok, 'steps:assembled-in-order', mv.site(pl[0]) if pl else mv.site(), 'each expanded step is assembled by the instruction parser, in order', '')
    cc = [c for c in ast.walk(mv.node) if isinstance(c, ast.Call) and unparse(c.func) == 'CompositeAssembledInstruction']
    ci_ = ctx.repo.func('bespokeasm.assembler.bytecode.assembled.CompositeAssembledInstruction.__init__')
    ok = len(cc) == 1 and unparse(bind_args(cc[0], ci_).get(ci_.call_params[1].arg)) == 'assembled_instructions'
    ctx.check(ok, 'steps:composite-of-all-steps', mv.site(cc[0]) if cc else mv.site(), 'the macro is the composite of all assembled steps', '; '.join(unparse(c) for c in cc))


def c10_variants(ctx):
    ctx.rule('C10.5', 'every configured macro variant takes part in the selection, in configuration order', 2)
    from engine.helpers import seq_view
    init = ctx.repo.func('bespokeasm.assembler.model.instruction_macro.InstructionMacro.__init__')
    sv = seq_view(ctx, init, 'self._variants')
    ok = sv is not None and unparse(sv.iter) in ('self._config', 'macro_config', 'enumerate(self._config)', 'enumerate(macro_config)', 'enumerate(self._config, start=1)',
                                                 'enumerate(macro_config, start=1)', 'enumerate(self._config, 1)', 'enumerate(macro_config, 1)') and not sv.conds
    conts = [n for n in ast.walk(sv.site) if isinstance(n, (ast.Continue, ast.Break))] if sv is not None and isinstance(sv.site, ast.For) else []
    ctx.check(ok and not conts, 'variants:all-kept', init.site(sv.site) if sv is not None else init.site(),
              'each entry of the macro\'s configuration list becomes a variant (none is skipped)',
              (f'built from {unparse(sv.iter)} under {[describe_facts([c]) for c in sv.conds]}; {len(conts)} continue/break' if sv is not None else 'construction of self._variants not recognised'))
    if sv is not None:
        tgt = ctx.repo.func('bespokeasm.assembler.model.instruction_macro.InstructionMacroVariant.__init__')
        e = sv.elt
        ok = isinstance(e, ast.Call) and unparse(e.func) == 'InstructionMacroVariant'
        if ok:
            b = bind_args(e, tgt)
            cfgp = tgt.call_params[1].arg
            var = sv.target.elts[-1] if isinstance(sv.target, ast.Tuple) else sv.target
            ok = unparse(b.get(cfgp)) == unparse(var)
        ctx.check(ok, 'variants:own-config', init.site(sv.site), 'each variant is built from its own configuration entry', unparse(e)[:120])
    vp = ctx.repo.func('bespokeasm.assembler.model.instruction_macro.InstructionMacro.variants')
    rr = returns(vp)
    ctx.check(len(rr) == 1 and unparse(rr[0].value) in ('self._variants', 'list(self._variants)', 'self._variants[:]', 'self._variants.copy()', 'tuple(self._variants)'), 'variants:property', vp.site(), 'macro.variants is that list', '; '.join(unparse(r) for r in rr))


def c10_4(ctx):
    ctx.rule('C10.4', 'macro names cannot collide with instruction names', 1)
    fn = ctx.repo.func('bespokeasm.assembler.model.instruction_set.InstructionSet.__init__')
    res = resolver(ctx, fn, inline=False)
    sites = [c for c in ast.walk(fn.node) if isinstance(c, ast.Call) and unparse(c.func) == 'InstructionMacro']
    if not sites:
        raise AnalysisError('InstructionSet no longer constructs InstructionMacro')
    for c in sites:
        cl = facts_at(ctx, fn, c, res)
        ctx.check(clause_implies(cl, lit_cmp(ctx, fn, 'mnemonic not in self', res)), 'namespace:macro-not-instruction', fn.site(c),
                  'a macro whose name is an instruction name is rejected', describe_facts(cl))


def c10_state(ctx):
    """Per-statement / per-lookup properties presuppose that nothing is remembered between statements beyond the reviewed state."""
    from rules.shared import state_discipline
    state_discipline(ctx, ('bespokeasm.expression', 'bespokeasm.assembler.bytecode', 'bespokeasm.assembler.model.instruction_macro', 'bespokeasm.assembler.model.instruction_parser', 'bespokeasm.assembler.model.operand', 'bespokeasm.assembler.model.instruction_set'))


def c10_parts(ctx):
    """@ARG(n) is the operand's argument text: an operand has an argument part exactly when its configuration gives it one (C01.3)."""
    from rules.c01 import c01_3
    c01_3(ctx)

def c10_sizes(ctx):
    """A macro "occupies exactly that many bytes": every step reserves what it emits (C01.4 size gate, C01.6 size arithmetic)."""
    from rules.c01 import c01_4, c01_6
    c01_4(ctx)
    c01_6(ctx)


RULES = [c10_1, c10_2, c10_3, c10_variants, c10_4, c10_state, c10_parts, c10_sizes]

_A = 'assembler/bytecode/assembled.py'
_M = 'assembler/bytecode/generator/macro.py'
MUTANTS = [
    V('c10-empty-variant-dropped', 'assembler/model/instruction_macro.py', "            variant_num += 1\n            self._variants.append(", "            variant_num += 1\n            if not variant_config.get('instructions'):\n                continue\n            self._variants.append(", 'C10.5'),
    V('c10-relative-operand-text-rebound', 'assembler/model/operand/types/relative_address.py', "        bytecode_part = NumericByteCodePart(\n            self.bytecode_value,\n            self.bytecode_size,\n            False,\n            'big',\n            line_id\n        ) if self.bytecode_value is not None else None\n        try:\n            arg_part = RelativeAddressByteCodePart(", "        operand = match.group(1).strip()\n        bytecode_part = NumericByteCodePart(\n            self.bytecode_value,\n            self.bytecode_size,\n            False,\n            'big',\n            line_id\n        ) if self.bytecode_value is not None else None\n        try:\n            arg_part = RelativeAddressByteCodePart(", 'C10.2'),
    V('c10-same-address', _A, "step_bytes = instr.get_bytes(label_scope, step_address, instr.byte_size)", "step_bytes = instr.get_bytes(label_scope, instruction_address, instr.byte_size)", 'C10.1'),
    V('c10-no-advance', _A, "            step_address += instr.byte_size\n", "", 'C10.1'),
    V('c10-size-before-super', _A, '''        super().__init__(line_id, parts)
        self._instructions = instructions
        # each step is a whole instruction that occupies its own whole bytes
        self._byte_size = sum(instr.byte_size for instr in instructions)
''', '''        self._instructions = instructions
        # each step is a whole instruction that occupies its own whole bytes
        self._byte_size = sum(instr.byte_size for instr in instructions)
        super().__init__(line_id, parts)
''', 'C10.1'),
    V('c10-flattened-size', _A, "        self._byte_size = sum(instr.byte_size for instr in instructions)\n", "", 'C10.1'),
    V('c10-macro-size-arg', _A, "step_bytes = instr.get_bytes(label_scope, step_address, instr.byte_size)", "step_bytes = instr.get_bytes(label_scope, step_address, instruction_size)", 'C10.1'),
    V('c10-arg-is-operand-text', _M, "instruction_str = instruction_str.replace(arg_str, op.operand_argument_string)", "instruction_str = instruction_str.replace(arg_str, op.operand_string)", 'C10.2'),
    V('c10-no-reg-leftover', _M, "            if '@REG' in instruction_str:\n                # ensure all @REGs are handled\n                sys.exit(f'ERROR: {line_id} - Macro \"{variant.mnemonic}\" has unrecognized @REG on step {step_num}')\n", "", 'C10.2'),
    V('c10-open-token', _M, "arg_str = f'@ARG({op_num})'", "arg_str = f'@ARG({op_num}'", 'C10.2'),
    V('c10-operandless-accepts-operands', _M, "        elif len(operand_list) > 0:\n            # This variant was expecting no operands but some were found. No match.\n            return None\n", "", 'C10.3'),
    V('c10-missing-arg-empty', _M, '''                        if op.operand_argument_string is None:
                            sys.exit(
                                f'ERROR: {line_id} - Macro "{variant.mnemonic}" step {step_num} uses @ARG({op_num}) '
                                f'but no operand argument exist. Consider using @OP{step_num} instead.'
                            )
''', '', 'C10.2'),
    V('c10-steps-reversed', _M, "composite_instruction = CompositeAssembledInstruction(line_id, assembled_instructions, operand_parts)", "composite_instruction = CompositeAssembledInstruction(line_id, assembled_instructions[::-1], operand_parts)", 'C10.3'),
    V('c10-macro-collision', 'assembler/model/instruction_set.py', "                if mnemonic in self:\n                    sys.exit(f'ERROR - Macro \"{mnemonic}\" has same mnemonic as a configured instruction.')\n", "", 'C10.4'),
    V('c10-arg-accessor-raw', 'assembler/model/operand/__init__.py', "        return self.argument.instruction_string", "        return self._operand_str", 'C10.2'),
    V('c10-registers-dropped', _M, "                line_id, operand_list, isa_model.registers, memzone_manager,\n            )\n            if matched_operands is None:\n                return None\n        elif", "                line_id, operand_list, set(), memzone_manager,\n            )\n            if matched_operands is None:\n                return None\n        elif", 'C10.3'),
]
MUTANTS += [
    V('c10-indexed-text-partial', 'assembler/model/operand/types/indexed_register.py', "                    return ParsedOperand(self, bytecode_part, parsed_index.argument, operand)", "                    return ParsedOperand(self, bytecode_part, parsed_index.argument, index_operand_str)", 'C10.2'),
    V('c10-indirect-numeric-inner-text', 'assembler/model/operand/types/indirect_numeric.py', "            return ParsedOperand(self, parsed_inner.bytecode, parsed_inner.argument, operand)", "            return parsed_inner", 'C10.2'),
    V('c10-step-size-macro', _A, "step_bytes = instr.get_bytes(label_scope, step_address, instr.byte_size)", "step_bytes = instr.get_bytes(label_scope, step_address, instruction_size)", 'C10.1'),
]
TWINS = [
    V('c10-t-size-loop', _A, "        self._byte_size = sum(instr.byte_size for instr in instructions)\n", "        self._byte_size = sum([step.byte_size for step in self._instructions])\n"),
]
