#!/venv/bin/python
"""tools/keep_seed.py <source dir with patch.diff, demo.py, notes.md> <seed id> <property>
Confirms the seeded change in /repo (applied with git apply, undone afterwards): demo passes clean, fails changed,
81 tests pass changed; runs every registered check against it; stores everything under seeded/<seed id>/."""
import json, os, re, shutil, subprocess, sys

src, sid, prop = sys.argv[1], sys.argv[2], sys.argv[3]
V = '/verif'
dst = os.path.join(V, 'seeded', sid)
os.makedirs(dst, exist_ok=True)
for f in ('patch.diff', 'demo.py', 'demo.sh', 'notes.md'):
    if os.path.exists(os.path.join(src, f)):
        if os.path.abspath(src) != os.path.abspath(dst):
            shutil.copy(os.path.join(src, f), os.path.join(dst, f))
demo = os.path.join(dst, 'demo.py' if os.path.exists(os.path.join(dst, 'demo.py')) else 'demo.sh')
runner = ['/venv/bin/python', demo] if demo.endswith('.py') else ['bash', demo]
env = dict(os.environ, BSA_SRC='/repo/src')
def sh(cmd, **kw):
    return subprocess.run(cmd, capture_output=True, text=True, **kw)
assert sh(['git', '-C', '/repo', 'status', '--porcelain', '--', 'src']).stdout.strip() == '', '/repo/src not clean'
clean = sh(runner, env=env, timeout=300).returncode
assert sh(['git', '-C', '/repo', 'apply', os.path.join(dst, 'patch.diff')]).returncode == 0, 'patch does not apply'
try:
    changed = sh(runner, env=env, timeout=300).returncode
    tests = sh(['/venv/bin/python', '-m', 'pytest', '-q', '-p', 'no:cacheprovider'], cwd='/repo').stdout.strip().splitlines()[-1]
    results = {}
    props = sorted(re.findall(r'c(\d+)\.py', ' '.join(os.listdir(os.path.join(V, 'rules')))))
    from concurrent.futures import ThreadPoolExecutor
    with ThreadPoolExecutor(16) as ex:
        runs = list(ex.map(lambda n: (n, sh([os.path.join(V, 'check'), f'C{n}', '--no-evidence'], cwd=V)), props))
    for n, r in runs:
        p = f'C{n}'
        if r.returncode != 0:
            results[p] = {'exit': r.returncode,
                          'refuted': [l.strip()[:300] for l in r.stdout.splitlines() if l.strip().startswith('refuted')][:6],
                          'errors': [l.strip()[:300] for l in r.stdout.splitlines() if l.startswith('ANALYSIS-ERROR')][:4]}
finally:
    sh(['git', '-C', '/repo', 'checkout', '--', '.'])
notes = open(os.path.join(dst, 'notes.md')).read() if os.path.exists(os.path.join(dst, 'notes.md')) else ''
needs = ''
m = re.search(r'(?is)(needs?[^\n]*\n.*?)(\n#|\Z)', notes)
meta = {
    'seed_id': sid, 'property': prop,
    'breaks': f'{prop} (see notes.md by the independent sub-agent that wrote the change without access to /verif)',
    'needs_to_manifest': (m.group(1).strip()[:1200] if m else 'see notes.md'),
    'confirmed': {
        'demo_exit_on_unchanged_tree': clean, 'demo_exit_with_change': changed, 'existing_tests_with_change': tests,
        'commands': ['git -C /repo apply seeded/%s/patch.diff' % sid, 'BSA_SRC=/repo/src %s' % ' '.join(runner),
                     'cd /repo && /venv/bin/python -m pytest -q -p no:cacheprovider', './check <each property> --no-evidence',
                     'git -C /repo checkout -- .'],
    },
    'checks_raising': results,
    'caught': prop in results and results[prop]['exit'] == 1,
}
json.dump(meta, open(os.path.join(dst, 'meta.json'), 'w'), indent=1)
ok = clean == 0 and changed != 0 and '81 passed' in tests
print(sid, 'valid' if ok else 'INVALID', 'caught-by', {k: v['exit'] for k, v in results.items()})
