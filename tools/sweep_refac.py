#!/venv/bin/python
"""tools/sweep_refac.py <dir with */<k>/patch.diff> : applies every behaviour-preserving patch to its own scratch copy of /repo/src
(under a temp dir, removed afterwards) and runs all 20 quick checks against it, 16 at a time. Prints every non-zero exit."""
import glob, os, shutil, subprocess, sys, tempfile
from concurrent.futures import ThreadPoolExecutor
V = os.path.dirname(os.path.dirname(os.path.abspath(__file__)))
root = sys.argv[1] if len(sys.argv) > 1 else os.path.join(V, "refactors")
patches = sorted(glob.glob(os.path.join(root, "*", "patch.diff")) + glob.glob(os.path.join(root, "*", "*", "patch.diff")))
# SWEEP_SKIP=<n> leaves out the first n patches (resuming a run that was cut short); SWEEP_CHECKS="C01 C07" restricts the checks
patches = patches[int(os.environ.get('SWEEP_SKIP', '0')):]
CHECKS = os.environ.get('SWEEP_CHECKS', '').split() or [f'C{n:02d}' for n in range(1, 21)]
def one(p):
    d = tempfile.mkdtemp(prefix='refac_')
    try:
        shutil.copytree('/repo/src', os.path.join(d, 'src'))
        r = subprocess.run(['git', 'apply', '--directory', d.lstrip('/'), '--unsafe-paths', p], cwd='/', capture_output=True, text=True)
        if r.returncode != 0:
            r = subprocess.run(['patch', '-p1', '-s', '-i', p], cwd=d, capture_output=True, text=True)
            if r.returncode != 0:
                return p, ['PATCH DOES NOT APPLY ' + r.stderr[:200]]
        out = []
        for cn in CHECKS:
            c = subprocess.run([os.path.join(V, 'check'), cn, '--no-evidence', '--repo', d], capture_output=True, text=True, cwd=V)
            if c.returncode != 0:
                out.append(f'{cn} exit={c.returncode}')
                out += ['   ' + l.strip()[:330] for l in c.stdout.splitlines() if l.strip().startswith('refuted') or l.startswith('ANALYSIS-ERROR')][:4]
        return p, out
    finally:
        shutil.rmtree(d, ignore_errors=True)
bad = n = 0
with ThreadPoolExecutor(16) as ex:
    for p, out in ex.map(one, patches):       # results are printed as they arrive, so a run that is cut short still tells something
        n += 1
        if out:
            bad += 1
            print('===', p)
            print('\n'.join(out), flush=True)
        if n % 25 == 0:
            print(f'... {n} of {len(patches)} done, {bad} raise something', flush=True)
print(f'{n} patches, {bad} raise something')
