#!/venv/bin/python
"""Regenerates MANIFEST.json from the rule modules present under rules/ (run after adding a property)."""
import importlib
import json
import os
import sys

HERE = os.path.dirname(os.path.dirname(os.path.abspath(__file__)))
sys.path.insert(0, HERE)
sys.dont_write_bytecode = True

props = [json.loads(l) for l in open(os.path.join(HERE, 'properties.jsonl'))]
checks, na = [], []
for p in props:
    pid = p['id']
    try:
        mod = importlib.import_module(f'rules.{pid.lower()}')
    except ModuleNotFoundError:
        na.append({'property_id': pid, 'reason': 'static rules for this property are not built yet in this commit '
                   '(DESIGN.md section 4 lists the structural clauses that will be decided)'})
        continue
    checks.append({
        'property_id': pid,
        'quick_cmd': f'./check {pid} --tier quick',
        'thorough_cmd': f'./check {pid} --tier thorough',
        'evidence_file': f'evidence/{pid}.json',
        'replay_cmd_template': f'./check {pid} --replay {{path}}',
        'engine': 'bespokeasm-static',
        'level_claimed': {
            'category': 'other',
            'text': getattr(mod, 'LEVEL_TEXT', None) or (
                'Custom static analysis of the current source tree: each rule is a necessary structural condition of the '
                'property (guard dominance, must-pass-through, provenance of arguments, table agreement, who-may-write) '
                'decided for every path/instance in the code rather than for sampled inputs. A refuted rule breaks the '
                'property; passing all rules does not establish the run-time-valued clauses, which are declined. '
                + mod.EXPLANATION),
            'design_ref': f'DESIGN.md section 4, {pid}',
        },
        'level_note': 'Trusted base: Python ast / re._parser as parsers; own annotation-driven call resolution (statistics '
                      'in the evidence); canonical linear forms of guards; frozen sibling tables confirmed by reading. '
                      'Decides the structural clauses listed in DESIGN.md section 4 only - not the behaviour as a whole.',
        'technique': getattr(mod, 'TECHNIQUE', 'custom static analysis: AST/CFG dominance, call-graph and constant-folding rules'),
    })
manifest = {
    'version': 1,
    'setup_cmd': 'true',
    'hooks': {
        'guard': 'BESPOKEASM_VERIF',
        'enable': 'none needed: checks read source text only, nothing in /repo is instrumented or executed',
        'baseline_off_cmd': 'cd /repo && /venv/bin/python -m pytest -ra -q -p no:cacheprovider --timeout=900 '
                            '--continue-on-collection-errors',
        'source_commits': [],
        'add_only': True,
    },
    'engines': [{
        'name': 'bespokeasm-static', 'path': 'engine/', 'serves_properties': [c['property_id'] for c in checks],
        'kind_free_text': 'stdlib-only static analyser for /repo: index, constant folder, regex AST utilities, '
                          'annotation-driven types and call graph, statement CFG with dominators, linear guard canonicaliser',
    }],
    'checks': checks,
    'not_applicable': na,
    'notes': 'Static-analysis family only. exit 0 = all obligations discharged (KNOWN-FINDING lines for listed findings); '
             'exit 1 + VIOLATION = a rule instance refuted; exit 2 + ANALYSIS-ERROR = anchor vanished / unknown shape, nothing claimed. '
             'Known findings: known_findings.json. Seeded changes: seeded/<id>/.',
}
with open(os.path.join(HERE, 'MANIFEST.json'), 'w') as f:
    json.dump(manifest, f, indent=1)
print(f'{len(checks)} checks, {len(na)} not_applicable')
