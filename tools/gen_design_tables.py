#!/venv/bin/python
"""Regenerates the machine-derived tables of DESIGN.md (between the BEGIN/END GENERATED markers):
rule inventory (from evidence/*.json), self-test variant counts (from rules/*.py) and the seeded-change table (from seeded/*/meta.json)."""
import glob, importlib, json, os, re, sys
HERE = os.path.dirname(os.path.dirname(os.path.abspath(__file__)))
sys.path.insert(0, HERE); sys.dont_write_bytecode = True
out = []
out.append('### Rule inventory on the current tree (from evidence/*.json)\n')
out.append('| property | rule | instances | title |\n|---|---|---|---|')
for f in sorted(glob.glob(os.path.join(HERE, 'evidence', 'C*.json'))):
    e = json.load(open(f))
    for rid, r in e['coverage']['rules'].items():
        flag = '' if not r['refuted'] else f' ({r["refuted"]} refuted: known findings)'
        out.append(f'| {e["property_id"]} | {rid} | {r["instances"]}{flag} | {r["title"]} |')
out.append('\n### Self-test variants per property (thorough tier)\n')
out.append('| property | seeded breaks (must be refuted) | behaviour-preserving twins (must be silent) |\n|---|---|---|')
tm = tt = 0
for n in range(1, 21):
    m = importlib.import_module(f'rules.c{n:02d}')
    a, b = len(getattr(m, 'MUTANTS', [])), len(getattr(m, 'TWINS', []))
    tm += a; tt += b
    out.append(f'| C{n:02d} | {a} | {b} |')
out.append(f'| total | {tm} | {tt} |')
out.append('\n### Seeded changes written by independent sub-agents (seeded/<id>/), and the checks that raise on them\n')
out.append('| seed | property | what it changes (first line of notes) | raised by (exit 1 = VIOLATION) |\n|---|---|---|---|')
for d in sorted(glob.glob(os.path.join(HERE, 'seeded', '*'))):
    mp = os.path.join(d, 'meta.json')
    if not os.path.exists(mp):
        continue
    m = json.load(open(mp))
    notes = ''
    np_ = os.path.join(d, 'notes.md')
    if os.path.exists(np_):
        for line in open(np_):
            line = line.strip().lstrip('#').strip()
            if len(line) > 25:
                notes = line[:110].replace('|', '/')
                break
    raised = ', '.join(f'{k} (exit {v["exit"]})' for k, v in sorted(m.get('checks_raising', {}).items())) or 'NOT CAUGHT'
    out.append(f'| {m["seed_id"]} | {m["property"]} | {notes} | {raised} |')
text = '\n'.join(out) + '\n'
p = os.path.join(HERE, 'DESIGN.md')
s = open(p).read()
b, e = '<!-- BEGIN GENERATED -->', '<!-- END GENERATED -->'
if b in s and e in s:
    s = s[:s.index(b) + len(b)] + '\n' + text + s[s.index(e):]
    open(p, 'w').write(s)
    print('DESIGN.md tables regenerated')
else:
    print(text)
