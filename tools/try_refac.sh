#!/bin/bash
# usage: tools/try_refac.sh <dir with k/patch.diff ...>  -- runs tools/try_patch.sh for each refactoring patch
for p in "$1"/*/patch.diff; do echo "=== $p"; /verif/tools/try_patch.sh "$p" 2>&1 | grep -v "conda.cli"; done
