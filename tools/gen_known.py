#!/venv/bin/python
"""Writes known_findings.json (committed; checks only read it, never write it)."""
import json, os
HERE = os.path.dirname(os.path.dirname(os.path.abspath(__file__)))
def fixed(prop, rule, key, commit, what, inp, observed, expected):
    return {'property': prop, 'rule': rule, 'key': key, 'status': 'fixed', 'commit': commit, 'what_fails': what,
            'input': inp, 'observed': observed, 'expected': expected,
            'record': f'fixed: property={prop} {commit} {what}'}
def known(prop, rule, key, what, inp, observed, expected, why_not_fixed):
    return {'property': prop, 'rule': rule, 'key': key, 'status': 'known', 'what_fails': what, 'input': inp,
            'observed': observed, 'expected': expected, 'why_recorded_not_repaired': why_not_fixed}
F = [
 fixed('C01', 'C01.2', 'fields:operandless-path:opcode-suffix', '37ce190', 'opcode suffix dropped for a variant without operands', '`h5` (5-bit opcode, 3-bit suffix, no operands)', 'a8', 'ab'),
 fixed('C02', 'C02.6', 'align:displacement', 'df222df', '.align moves an already aligned address a whole page', '.org 16 / .align 16 / .byte 1', 'byte at 0x20', 'byte at 0x10'),
 fixed('C03', 'C03.1', 'image:bounded-write', 'd576ef1', 'whole line bytes appended without clipping to the window; lines keyed by start address', '.org 2 / .4byte $11223344 with -s 0 -e 3 and -s 4 -e 5', '6 bytes / 00 00', '00 00 11 22 / 33 44'),
 fixed('C03', 'C03.4', 'bounds:default-end', 'd576ef1', 'default window end taken from the start address of the last line of any kind', '.byte 1 / end:', '01 00', '01'),
 fixed('C07', 'C07.1', 'grammar:primary:negation', '04b2cde', 'unary minus swallows lower-precedence operators', '.byte -1 + 2', 'fd', '01'),
 fixed('C07', 'C07.4', 'lexer:total', '264adb5', 'expression lexer silently drops characters no token starts with', 'ldi ~5 ; ldi 5! ; ldi 5 @ + @ 1', '5, 5, 6', 'rejected'),
 fixed('C08', 'C08.1', 'active:depends-on-all-entries', '48c324c', 'only the innermost condition decides activity', '#if 0 / #if 1 / .byte 2 / #endif / #endif', '.byte 2 emitted', 'not emitted'),
 fixed('C08', 'C08.2', 'latched:no-symbol-read-per-line', '48c324c', 'conditions re-evaluated for every later line', '#ifndef G / #define G 1 / .byte 1 / #endif', '.byte 1 dropped', 'emitted'),
 fixed('C08', 'C08.3', 'guard:#define', '3404d16', '#define acts inside an unselected branch', '#if 0 / #define FOO 9 / #endif / #ifdef FOO / .byte 7', 'emitted', 'not emitted'),
 fixed('C08', 'C08.3', 'guard:#create_memzone', '3404d16', '#create_memzone acts inside an unselected branch', '#if 0 / #create_memzone zz $100 $1FF / #endif / .memzone zz', 'zone exists', 'unknown zone'),
 fixed('C08', 'C08.3', 'guard:#include', '3404d16', '#include followed inside an unselected branch', '#if 0 / #include "inc1.asm" / #endif', 'included', 'not included'),
 fixed('C09', 'C09.1', 'replace:word-bounded', 'b3a7bd1', 'substring replacement of symbol names', '#define FOO 9 / FOOBAR = 3 / .byte FOO, FOOBAR', 'error on 9BAR', '09 03'),
 fixed('C09', 'C09.5', 'define:name-validated', '637f62b', 'names the recogniser cannot produce are registered and never substituted', '-D X=5 / .byte X', 'unresolved label', 'rejected name (or 05)'),
 fixed('C10', 'C10.1', 'composite:size=sum-of-steps', '56b9fe4', 'macro flattens its steps into one bit string', 'macro of two 5-bit g5', 'ad 40', 'a8 a8'),
 fixed('C10', 'C10.1', 'composite:bytes-per-step', '56b9fe4', 'relative operands of later macro steps measured from the macro address', 'jj target = nop + jr target at 0', 'offset 00', 'ff'),
 fixed('C10', 'C10.2', 'accessor:full-operand-text:IndirectNumericOperand.parse_operand:delegated', 'a16f1ab', 'indirect numeric operands record only the text inside the brackets, so @OP(n) reproduces a different operand', 'macro ldm [5] with template `ld @OP(0)`', 'b2 05 (immediate variant)', 'a1 05 (same as ld [5])'),
 fixed('C16', 'C16.4', 'listing:total:_print_line_object', '66cfb6e', 'the listing aborts on a statement that produces no bytes (a .zerountil whose address is already passed), so a valid program cannot be listed', '.byte 1,2,3,4 / .zerountil 1 / .byte 9 with -p', 'ERROR - internal: line_bytes is empty', 'listed with an empty byte column'),
 fixed('C04', 'C04.2', 'overlap:empty-lines-exempt', '12f58d7', 'a line that reserves no bytes is reported as overlapping when it sits inside another line\'s range, although it occupies no address', '.org 0 / .byte 1,2,3,4 / .org 2 / .zerountil 1 / .org 4 / .byte 9', 'overlap error', '01 02 03 04 09'),
 fixed('C19', 'C19.3', 'require:unmatched-line-exits', 'ab5b401', 'a #require line the requirement pattern does not match (misspelt operator, missing quote) is silently ignored', '#require "other-lang => 2.0.0" with an ISA named differently', 'assembles, exit 0', 'rejected'),
 fixed('C18', 'C18.2', 'space:condition-operand:_lhs_expression:group1', '7d96373', 'the left operand of an #if / #elif comparison keeps the blanks its pattern absorbed, and operands naming labels are compared as text', '#define MODE fast / #if MODE  == fast (two blanks before ==)', 'false branch taken', 'same as with one blank'),
 fixed('C13', 'C13.8', 'whole-operand:EnumerationOperand', '9af33bf', 'an enumeration operand matches a key followed by arbitrary text (the pattern was not anchored at the end)', 'set fast!garbage / set fast + 3 (enumeration keys slow, fast)', 'assembled as `set fast`', 'rejected: no variant accepts the statement'),
 fixed('C13', 'C13.8', 'whole-operand:RelativeAddressOperand', '9af33bf', 'a relative-address operand matches an expression followed by arbitrary text (only the matched prefix was used)', 'jr t ! junk', 'assembled as `jr t`', 'rejected'),
 fixed('C12', 'C12.3', 'width:upper', 'f5cdb79', 'overflow gate at byte, not bit, granularity', 't3 200 (3-bit field)', 'accepted', 'rejected'),
 fixed('C13', 'C13.5', 'register-guard:NumericEnumerationOperand', 'e15cca4', 'numeric enumeration operand accepts register names', 'set {numeric_enumeration, register a}: en a', 'error', 'register form'),
 fixed('C14', 'C14.1', 'loop:assembler.engine.Assembler.assemble_bytecode:addr <= (max_generated_address if self._binary_end', 'd576ef1', 'image loop stalls on a zero-length line', '.byte 1 / .fill 0, 0', 'hang', 'terminates'),
 fixed('C14', 'C14.2', 'closed:pretty-print-before-image', '3885696', 'pretty printer can abort after the image was written', '.byte 1 / .fill 0,0 / .byte 2 with -p', 'exit 1, .bin written', 'no image'),
 fixed('C14', 'C14.4', 'consume:DataLine:line_str', '5436c33', 'data line consumes the whole remaining line', '.byte 1 ! garbage here', 'accepted', 'rejected'),
 fixed('C14', 'C14.4', 'consume:PageAlignLine:cleaned_line_str', '5436c33', '.align line consumes the whole remaining line', '.align 4 ! junk', 'accepted', 'rejected'),
 fixed('C14', 'C14.4', 'consume:LabelLine:line_str', '42af794', 'constant definition consumes the whole remaining line', 'X = 3 ! junk', 'accepted', 'rejected'),
 fixed('C18', 'C18.1', 'case:IndexedRegisterOperand.parse_operand', 'd5e4af2', 'case-sensitive comparison after a case-insensitive match', 'mov a, [HL + [4]]', 'rejected', 'same as [hl + [4]]'),
 fixed('C18', 'C18.2', 'space:InstructioParser.parse_instruction', '24e82fd', "mnemonic split on a literal space", 'ldi<TAB>5', 'Unrecognized mnemonic', '01 05'),
 fixed('C19', 'C19.2', 'version:min_version-gates', '0059781', 'version gates compare strings', 'min_version: "0.4.10" / "0.10.0"', 'accepted / wrong message', 'rejected / requires 0.10.0'),
 fixed('C20', 'C20.1', 'placeholder:tmTheme.xml:##LANGUAGE_ID##', '705b182', 'discarded str.replace result leaves a placeholder', 'generate-extension vscode', '##LANGUAGE_ID## Color Scheme', 'substituted'),
 fixed('C20', 'C20.2', 'escape:_replace_token_with_regex_list', '25da19e', 'vocabulary joined into a regex unescaped', 'mnemonic ma.hl', r'\bma.hl\b', r'ma\.hl'),
 known('C14', 'C14.1', 'regex:nested-unbounded:assembler.line_object.INSTRUCTION_EXPRESSION_PATTERN',
       'INSTRUCTION_EXPRESSION_PATTERN is `(?:<token>|...)+` over tokens such as \\d+ and \\w+: exponential backtracking when the enclosing directive pattern has to fail',
       '.fill 111111111111111111111111 (no comma, 18+ digits)', 'does not return within minutes', 'rejected at once',
       'the pattern is embedded in more than a dozen directive, constant and condition patterns and doubles as the lexer grammar; removing the ambiguity means redesigning the expression tokenisation (atomic groups need Python 3.11+) - not a small safe patch'),
 known('C14', 'C14.1', 'regex:nested-unbounded:assembler.model.operand.types.relative_address.RelativeAddressOperand.match_pattern:base_match_str',
       'RelativeAddressOperand.match_pattern is `((?:<token>|\\s)+)`: the same (C+)+ shape; with use_curly_braces a missing `}` makes the match fail after exponential work',
       'operand `{111111111111111111111` for a relative_address operand with use_curly_braces', '18 digits take about a minute, 20 digits several minutes', 'rejected at once',
       'same root cause as INSTRUCTION_EXPRESSION_PATTERN (token alternation under an unbounded repeat)'),
 known('C16', 'C16.2', 'mute:ListingPrettyPrinter._print_line_object',
       'the listing prints the bytes (and address) of muted lines', '.byte 1 / #mute / .byte 2 / #emit / .byte 3 with -p', 'listing shows 02 at 0001', 'muted bytes absent from the memory-describing columns',
       'what a listing should show for muted source lines is an output-format policy the maintainer should decide'),
 known('C16', 'C16.3', 'address:MinHexPrettyPrinter.pretty_print',
       'the compact hex format derives positions from emission order; addresses are written only at .org lines', 'same program, -t minhex', ':01 03 (03 shown at offset 1)', '03 at address 2',
       'the minhex format has no address records for gaps; changing it changes the format'),
 fixed('C18', 'C18.2', 'space:directive-keyword-normalised', 'ecd6ff9', "directive dispatch tests literal-space prefixes ('#if ', '#define ', ...): a TAB after the keyword was not accepted", '#if<TAB>1 / #define<TAB>FOO 5', 'unknown instruction', 'accepted like a space'),
]
json.dump({'findings': F}, open(os.path.join(HERE, 'known_findings.json'), 'w'), indent=1)
print(len(F), 'entries')
