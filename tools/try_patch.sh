#!/bin/bash
# usage: tools/try_patch.sh <patch.diff>   -- applies to /repo, runs the tests and all 20 quick checks, always restores /repo
cd /repo || exit 2
if [ -n "$(git status --porcelain -- src)" ]; then echo "/repo/src not clean"; exit 2; fi
git apply "$1" || { echo "PATCH DOES NOT APPLY"; exit 2; }
trap 'git -C /repo checkout -- . ' EXIT
tests=$(/venv/bin/python -m pytest -q -p no:cacheprovider 2>&1 | tail -1)
echo "tests: $tests"
cd /verif
for n in $(seq -w 1 20); do
  out=$(./check C$n --no-evidence 2>&1); rc=$?
  if [ $rc -ne 0 ]; then echo "  C$n exit=$rc"; echo "$out" | grep -E "^  refuted|ANALYSIS-ERROR" | cut -c1-300 | head -5; fi
done
