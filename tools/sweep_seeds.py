#!/venv/bin/python
"""tools/sweep_seeds.py : applies every archived seeded change (seeded/<id>/patch.diff) to its own scratch copy of /repo/src and runs
the quick check of the property it was written against (and all others with --all). Expected: exit 1 for the own property."""
import glob, json, os, shutil, subprocess, sys, tempfile
from concurrent.futures import ThreadPoolExecutor
V = os.path.dirname(os.path.dirname(os.path.abspath(__file__)))
ALL = '--all' in sys.argv
seeds = sorted(glob.glob(os.path.join(V, 'seeded', '*', 'patch.diff')))
def one(p):
    sid = os.path.basename(os.path.dirname(p))
    prop = sid.split('-')[0]
    d = tempfile.mkdtemp(prefix='seed_')
    try:
        shutil.copytree('/repo/src', os.path.join(d, 'src'))
        r = subprocess.run(['patch', '-p1', '-s', '-i', p], cwd=d, capture_output=True, text=True)
        if r.returncode != 0:
            return sid, 'PATCH DOES NOT APPLY', {}
        got = {}
        for n in (range(1, 21) if ALL else [int(prop[1:])]):
            c = subprocess.run([os.path.join(V, 'check'), f'C{n:02d}', '--no-evidence', '--repo', d], capture_output=True, text=True, cwd=V)
            if c.returncode != 0:
                got[f'C{n:02d}'] = c.returncode
        return sid, ('caught' if got.get(prop) == 1 else ('caught-by-other' if 1 in got.values() else 'MISSED')), got
    finally:
        shutil.rmtree(d, ignore_errors=True)
with ThreadPoolExecutor(16) as ex:
    res = list(ex.map(one, seeds))
from collections import Counter
print(Counter(r[1] for r in res))
for sid, st, got in res:
    if st != 'caught':
        print(sid, st, got)
