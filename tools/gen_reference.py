#!/venv/bin/python
"""Regenerates engine/reference_names.json from /repo's current tree: the functions, local names and conditional-expression
statements the rules were written against (see engine/normalize.py). Run only after reviewing the tree the rules refer to."""
import json, os, sys
sys.path.insert(0, os.path.dirname(os.path.dirname(os.path.abspath(__file__))))
from engine.index import Repo
from engine.normalize import build_reference, REFERENCE
ref = build_reference(Repo(sys.argv[1] if len(sys.argv) > 1 else '/repo'))
with open(REFERENCE, 'w') as f:
    json.dump(ref, f, indent=0, sort_keys=True)
print(len(ref['functions']), 'functions recorded')
