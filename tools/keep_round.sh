#!/bin/bash
# usage: tools/keep_round.sh <suffix letter> <NN>...   -- archives /tmp/wt/<suffix>NN.out/{1,2} as seeded/CNN-<suffix>{1,2}
sfx=$1; shift
for nn in "$@"; do
  for k in 1 2; do
    d=/tmp/wt/${DIRPFX:-$sfx}${nn}.out/$k
    [ -f $d/patch.diff ] || continue
    [ -d /verif/seeded/C${nn}-${sfx}${k} ] && continue
    /venv/bin/python /verif/tools/keep_seed.py $d C${nn}-${sfx}${k} C${nn} 2>&1 | tail -1
  done
done
