#!/bin/bash
# usage: tools/try_seed.sh <seed dir containing patch.diff + demo.py|demo.sh> [props...]
# Applies the patch to /repo, confirms (demo fails, tests pass), runs the checks, and ALWAYS restores /repo.
d=$1; shift
props=${@:-$(ls /verif/rules | sed -n 's/^c\([0-9]*\)\.py$/C\1/p')}
cd /repo || exit 2
if [ -n "$(git status --porcelain -- src)" ]; then echo "/repo/src not clean"; exit 2; fi
demo=$d/demo.py; run="/venv/bin/python"; [ -f $demo ] || { demo=$d/demo.sh; run="bash"; }
BSA_SRC=/repo/src timeout 120 $run $demo >/dev/null 2>&1; clean_rc=$?
git apply $d/patch.diff || { echo "PATCH DOES NOT APPLY"; exit 2; }
trap 'git -C /repo checkout -- . ' EXIT
BSA_SRC=/repo/src timeout 120 $run $demo >/dev/null 2>&1; mut_rc=$?
tests=$(/venv/bin/python -m pytest -q -p no:cacheprovider 2>&1 | tail -1)
echo "demo clean rc=$clean_rc  mutated rc=$mut_rc  tests: $tests"
cd /verif
for p in $props; do
  out=$(./check $p --no-evidence 2>&1); rc=$?
  if [ $rc -ne 0 ]; then echo "  $p exit=$rc"; echo "$out" | grep -E "refuted|ANALYSIS-ERROR" | cut -c1-260 | head -6; fi
done
