#!/bin/bash
# usage: tools/try_patch2.sh <patch.diff> [props...]  -- like try_patch.sh but without the tests; optional list of properties
cd /repo || exit 2
if [ -n "$(git status --porcelain -- src)" ]; then echo "/repo/src not clean"; exit 2; fi
git apply "$1" || { echo "PATCH DOES NOT APPLY"; exit 2; }
trap 'git -C /repo checkout -- . ' EXIT
shift
props="$@"; [ -z "$props" ] && props=$(seq -w 1 20 | sed 's/^/C/')
cd /verif
for p in $props; do
  out=$(./check $p --no-evidence 2>&1); rc=$?
  if [ $rc -ne 0 ]; then echo "  $p exit=$rc"; echo "$out" | grep -E "^  refuted|ANALYSIS-ERROR" | cut -c1-400 | head -6; fi
done
