#!/bin/bash
# Re-derives archived patches (seeded/*, refactors/*) that no longer apply to /repo's HEAD by a three-way merge in a scratch worktree.
WT=/tmp/wt_rebase_$$
git -C /repo worktree add --detach $WT HEAD -q || exit 2
cd $WT
for p in /verif/seeded/*/patch.diff /verif/refactors/*/patch.diff; do
  git checkout -q -- . ; git clean -fdq
  if git apply --check "$p" 2>/dev/null; then continue; fi
  if git apply -3 "$p" >/dev/null 2>&1 && [ -z "$(git diff --name-only --diff-filter=U)" ] && ! grep -rqs '^<<<<<<< ' src; then
    git diff HEAD > "$p.new"
    if [ -s "$p.new" ]; then mv "$p.new" "$p"; echo "rebased $p"; else rm -f "$p.new"; echo "EMPTY after rebase (change already in tree?) $p"; fi
  else
    echo "CONFLICT $p"
  fi
  git reset -q --hard HEAD
done
cd /; git -C /repo worktree remove --force $WT
