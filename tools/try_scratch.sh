#!/bin/bash
# usage: tools/try_scratch.sh <ABSOLUTE patch path> [props...]  -- applies the patch to a scratch copy of /repo/src (never /repo) and runs the checks there
d=$(mktemp -d /tmp/try_XXXXXX); trap 'rm -rf $d' EXIT
cp -r /repo/src $d/src
( cd $d && patch -p1 -s -f --no-backup-if-mismatch -i "$1" ) || { echo "PATCH DOES NOT APPLY"; exit 2; }
shift
props="$@"; [ -z "$props" ] && props=$(seq -w 1 20 | sed 's/^/C/')
cd /verif
for p in $props; do
  ( out=$(./check $p --no-evidence --repo $d 2>&1); rc=$?
    if [ $rc -ne 0 ]; then echo "  $p exit=$rc"; echo "$out" | grep -E "^  refuted|ANALYSIS-ERROR" | cut -c1-400 | head -6; fi ) &
done
wait
