#!/bin/bash
# Triage aid only (NOT a check, not registered in MANIFEST): compiles every program under /repo/examples and
# stores image+listing under /tmp/exreg/<label>; run once with PYTHONPATH empty (/repo) and once with a patched
# copy, then cmp the outputs. usage: example_regression.sh <label> <PYTHONPATH or "">
label=$1; pp=$2
cd /repo/examples
for d in slu4-minimal-64 slu4-minimal-64x4 slu4-minimal-cpu ben-eater-sap1 kenbak-1 intel-8085 mostek-3870; do
  cfg=$(ls $d/*.yaml | head -1)
  for f in $(find $d -type f \( -name "*.min64" -o -name "*.min64x4" -o -name "*.min-asm" -o -name "*.sap1" -o -name "*.kb1" -o -name "*.asm" -o -name "*.a85" -o -name "*.f8" \)); do
    out=/tmp/exreg/$label/$(echo $f | tr '/' '_')
    mkdir -p /tmp/exreg/$label
    PYTHONPATH=$pp timeout 60 /venv/bin/python -m bespokeasm compile -c $cfg $f -o $out.bin -p --pretty-print-output $out.lst -I $d -I $(dirname $f) > $out.log 2>&1
    echo "$? $f" >> /tmp/exreg/$label/status.txt
  done
done
