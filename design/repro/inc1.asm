.byte $AA
