target:
  jj target
  nop
  jr target
