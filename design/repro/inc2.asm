_f2: .byte 2
g2: .byte _f2
.loc: .byte 9
.byte .loc
