.byte -1 + 2
.byte 2 - -1 + 4
