#if 0
#include "inc1.asm"
#endif
.byte 4
