#ifndef GUARD
#define GUARD 1
.byte 1
#endif
.byte 4
