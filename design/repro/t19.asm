#define	FOO 5
ldi FOO
