.byte 1 ! garbage here
.byte 2
.align ; x
nop
.align 4 ! junk
nop
