#if 0
.byte 1
#if 1
.byte 2
#endif
.byte 3
#endif
.byte 4
