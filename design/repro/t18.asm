ldi	5
