h5
h5o 9
gg
g5
g5
