mov a, [hl + [4]]
mov A, [hl + [4]]
mov a, [HL + [4]]
