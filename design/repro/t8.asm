.org 16
.align 16
.byte 1
