.org 2
.4byte $11223344
.byte $55
