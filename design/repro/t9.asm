t3 200
t3 7
t3 -1
t3 8
ldi 256
ldi -129
ldi 255
ldi -128
