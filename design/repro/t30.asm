#if 0
#create_memzone zz $100 $1FF
#endif
.memzone zz
.byte 7
