two 3
.byte $EE
t3 3
t3 3
.byte $EE
