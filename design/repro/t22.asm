.byte X
.byte YY
