nr a
nr 5
en 2
en a
