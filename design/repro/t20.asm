#if	1
ldi 5
#endif
