#if 0
#define FOO 9
#endif
#ifdef FOO
.byte 7
#endif
.byte 4
