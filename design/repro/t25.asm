start:
.loc: .byte 1
#include "inc2.asm"
.byte .loc
_f1: .byte g2
