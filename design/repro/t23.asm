.byte 1
end:
