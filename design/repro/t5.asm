#define FOO 9
FOOBAR = 3
.byte FOO, FOOBAR
