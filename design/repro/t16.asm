.byte 1
.fill 0, 0
.byte 2
