.byte 1
.fill 0, 0
