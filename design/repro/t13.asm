ldi 5!
ldi ~5
ldi 5 @ + @ 1
X = 3 ! 
.byte X
