.byte 1
#mute
.byte 2
#emit
.byte 3
